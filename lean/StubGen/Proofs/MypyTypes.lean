/-
C05 (analyser half) — proofs that the monadic model of `mypy_type_to_abstract_type` computes the pure
mapping of `StubGen/Spec/MypyMap.lean`.  All names carry the prefix `t05_`.
-/
import StubGen.Spec.MypyMap
import Mathlib.Tactic.SplitIfs

namespace StubGen

open Spec.MypyMap

/-! ### the state after a run -/

theorem t05_resolveOf_after (env : AEnv) (st : VSt) (tvs : List (String × Option AType)) (ws : List String) :
    resolveOf env (after st tvs ws) = resolveOf env st := rfl

theorem t05_record_append (a b l : List (String × Option AType)) : record (a ++ b) l = record b (record a l) := by
  unfold record; rw [List.foldl_append]

theorem t05_after_after (st : VSt) (a b : List (String × Option AType)) (u v : List String) :
    after (after st a u) b v = after st (a ++ b) (u ++ v) := by
  unfold after
  simp only [t05_record_append, List.append_assoc]

theorem t05_after_nil (st : VSt) : after st [] [] = st := by
  unfold after record
  simp only [List.foldl_nil, List.append_nil]

/-! ### `Sem`: a computation described by (error, value, recorded type variables, warnings) -/

structure t05_Sem (env : AEnv) (R : Resolve) {α : Type} (x : V α) (err : Option PyErr) (a : α)
    (tvs : List (String × Option AType)) (ws : List String) : Prop where
  run : ∀ st, resolveOf env st = R → x st = outcome st err a tvs ws

namespace t05_Sem
variable {env : AEnv} {R : Resolve} {α β : Type}

theorem pure (a : α) : t05_Sem env R (Pure.pure a : V α) none a [] [] := by
  refine ⟨fun st _ => ?_⟩
  show Except.ok (a, st) = Except.ok (a, after st [] [])
  rw [t05_after_nil]

theorem throw (e : PyErr) (a : α) : t05_Sem env R (throwV e : V α) (some e) a [] [] :=
  ⟨fun _ _ => rfl⟩

theorem warn (m : String) : t05_Sem env R (warnV m) none () [] [m] :=
  ⟨fun _ _ => rfl⟩

theorem addTv (tv : String × Option AType) :
    t05_Sem env R (modify fun s => { s with typeVars := addTypeVar tv s.typeVars } : V PUnit) none () [tv] [] := by
  refine ⟨fun st _ => ?_⟩
  show Except.ok ((), _) = Except.ok ((), after st [tv] [])
  unfold after record
  simp only [List.foldl_cons, List.foldl_nil, List.append_nil]

theorem bind {x : V α} {f : α → V β} {e1 e2 : Option PyErr} {a : α} {b : β}
    {tv1 tv2 : List (String × Option AType)} {w1 w2 : List String}
    (hx : t05_Sem env R x e1 a tv1 w1) (hf : t05_Sem env R (f a) e2 b tv2 w2) :
    t05_Sem env R (x >>= f) (orErr e1 e2) b (tv1 ++ tv2) (w1 ++ w2) := by
  refine ⟨fun st hR => ?_⟩
  simp only [Bind.bind, StateT.bind, Except.bind]
  rw [hx.run st hR]
  cases e1 with
  | some e => rfl
  | none =>
    show f a (after st tv1 w1) = _
    rw [hf.run _ ((t05_resolveOf_after env st tv1 w1).trans hR)]
    cases e2 with
    | some e => rfl
    | none =>
      show Except.ok (b, after (after st tv1 w1) tv2 w2) = Except.ok (b, after st (tv1 ++ tv2) (w1 ++ w2))
      rw [t05_after_after]

/-- `do x; y` -/
theorem andThen {x : V α} {y : V β} {e1 e2 : Option PyErr} {a : α} {b : β}
    {tv1 tv2 : List (String × Option AType)} {w1 w2 : List String}
    (hx : t05_Sem env R x e1 a tv1 w1) (hy : t05_Sem env R y e2 b tv2 w2) :
    t05_Sem env R (x >>= fun _ => y) (orErr e1 e2) b (tv1 ++ tv2) (w1 ++ w2) :=
  bind hx hy

theorem congr {x : V α} {e e' : Option PyErr} {a a' : α} {tv tv' : List (String × Option AType)}
    {w w' : List String} (h : t05_Sem env R x e a tv w) (he : e = e') (ha : a = a') (ht : tv = tv')
    (hw : w = w') : t05_Sem env R x e' a' tv' w' := by
  subst he ha ht hw; exact h

/-- `do let a ← x; pure (g a)` -/
theorem map {x : V α} {e : Option PyErr} {a : α} {tv : List (String × Option AType)} {w : List String}
    (h : t05_Sem env R x e a tv w) (g : α → β) : t05_Sem env R (x >>= fun a => Pure.pure (g a)) e (g a) tv w :=
  (bind h (pure (g a))).congr (by cases e <;> rfl) rfl (List.append_nil _) (List.append_nil _)

/-- the value is irrelevant when the computation fails -/
theorem errVal {x : V α} {e : PyErr} {a a' : α} {tv tv' : List (String × Option AType)} {w w' : List String}
    (h : t05_Sem env R x (some e) a tv w) : t05_Sem env R x (some e) a' tv' w' :=
  ⟨fun st hR => (h.run st hR).trans rfl⟩

theorem getBind {f : VSt → V α} {e : Option PyErr} {a : α} {tv : List (String × Option AType)} {w : List String}
    (h : ∀ s, resolveOf env s = R → t05_Sem env R (f s) e a tv w) : t05_Sem env R (get >>= f) e a tv w :=
  ⟨fun st hR => (h st hR).run st hR⟩

end t05_Sem

/-! ### name resolution under a fixed `Resolve` -/

theorem t05_alias_sem (env : AEnv) (R : Resolve) (s : VSt) (hs : resolveOf env s = R) (n : String) :
    t05_Sem env R
      (match findAlias env s n with
        | .error e => throwV e
        | .ok (n', q) => if q == "" then do warnV "Could not parse a type, added unknown type instead."; pure .unknown
                        else pure (.named n' q) : V AType)
      (errOf (resolveAlias R n)) (valOf (resolveAlias R n)) [] (warnOf (resolveAlias R n)) := by
  have ha : R.alias n = findAlias env s n := by rw [← hs]; rfl
  unfold resolveAlias
  rw [ha]
  cases findAlias env s n with
  | error e => exact t05_Sem.throw e _
  | ok r =>
    obtain ⟨n', q⟩ := r
    dsimp only
    by_cases hq : (q == "") = true
    · rw [if_pos hq, if_pos hq]
      exact (t05_Sem.andThen (t05_Sem.warn _) (t05_Sem.pure AType.unknown)).congr rfl rfl rfl rfl
    · rw [if_neg hq, if_neg hq]
      exact t05_Sem.pure _

theorem t05_unbound_sem (env : AEnv) (R : Resolve) (s : VSt) (hs : resolveOf env s = R) (name : String) :
    t05_Sem env R
      (match bottomModule s with
        | none => throwV .typeError
        | some m =>
          match m.classes.find? (fun c => c.name == name) with
          | some c => pure (.named c.name (replaceChar c.id '/' "."))
          | none =>
            match findAlias env s name with
            | .error e => throwV e
            | .ok (n, q) => if q == "" then do warnV "Could not parse a type, added unknown type instead."; pure .unknown
                            else pure (.named n q) : V AType)
      (errOf (resolveUnbound R name)) (valOf (resolveUnbound R name)) [] (warnOf (resolveUnbound R name)) := by
  have hc : R.classes = (bottomModule s).map (·.classes) := by rw [← hs]; rfl
  unfold resolveUnbound
  rw [hc]
  cases bottomModule s with
  | none => exact t05_Sem.throw _ _
  | some m =>
    dsimp only [Option.map]
    cases m.classes.find? (fun c => c.name == name) with
    | some c => exact t05_Sem.pure _
    | none => exact t05_alias_sem env R s hs name

mutual
theorem t05_noUn_sem (env : AEnv) (R : Resolve) : (t : MType) →
    t05_Sem env R (toAbstractNoUn env t) (firstErr R t) (mapType R t) (typeVarsOf R t) (warningsOf R t)
  | .tuple items => by
    have ih := t05_abstracts_sem env R items
    rw [toAbstractNoUn, firstErr, mapType, typeVarsOf, warningsOf]
    exact ih.map _
  | .union items => by
    have ih := t05_abstracts_sem env R items
    rw [toAbstractNoUn, firstErr, mapType, typeVarsOf, warningsOf]
    exact ih.map _
  | .typeVar name ub ubStr => by
    have ih := t05_noUn_sem env R ub
    rw [toAbstractNoUn, firstErr, mapType, typeVarsOf, warningsOf]
    by_cases hb : (ubStr != "builtins.object") = true
    · simp only [if_pos hb]
      by_cases hn : (name == "Self") = true
      · simp only [if_pos hn]
        exact (ih.map id).congr rfl rfl rfl rfl
      · simp only [if_neg hn]
        refine (t05_Sem.bind ih (t05_Sem.andThen (t05_Sem.addTv _) (t05_Sem.pure _))).congr ?_ rfl ?_ ?_
        · cases firstErr R ub <;> rfl
        · simp only [List.append_nil]
        · simp only [List.append_nil]
    · simp only [if_neg hb]
      exact (t05_Sem.andThen (t05_Sem.addTv _) (t05_Sem.pure _)).congr rfl rfl rfl rfl
  | .callable args ret => by
    have ih1 := t05_abstracts_sem env R args
    have ih2 := t05_noUn_sem env R ret
    rw [toAbstractNoUn, firstErr, mapType, typeVarsOf, warningsOf]
    exact t05_Sem.bind ih1 (ih2.map _)
  | .any t missing => by
    rw [toAbstractNoUn, firstErr, mapType, typeVarsOf, warningsOf]
    by_cases ht : (t == fromUnimportedType) = true
    · simp only [if_pos ht]
      exact t05_Sem.getBind (fun s hs => t05_alias_sem env R s hs _)
    · simp only [if_neg ht]
      exact t05_Sem.pure _
  | .none => by
    rw [toAbstractNoUn, firstErr, mapType, typeVarsOf, warningsOf]
    exact t05_Sem.pure _
  | .literal v => by
    rw [toAbstractNoUn, firstErr, mapType, typeVarsOf, warningsOf]
    exact t05_Sem.pure _
  | .unbound name args => by
    have ih := t05_abstracts_sem env R args
    rw [toAbstractNoUn, firstErr, mapType, typeVarsOf, warningsOf]
    by_cases h1 : (name == "list") = true
    · simp only [if_pos h1]; exact ih.map _
    · simp only [if_neg h1]
      by_cases h2 : (name == "set") = true
      · simp only [if_pos h2]; exact ih.map _
      · simp only [if_neg h2]
        by_cases h3 : builtinUnbound name = true
        · have h3' : (name == "Any" || name == "str" || name == "int" || name == "bool" || name == "float"
              || name == "None") = true := h3
          simp only [if_pos h3, if_pos h3']; exact t05_Sem.pure _
        · have h3' : ¬ (name == "Any" || name == "str" || name == "int" || name == "bool" || name == "float"
              || name == "None") = true := h3
          simp only [if_neg h3, if_neg h3']
          exact t05_Sem.getBind (fun s hs => t05_unbound_sem env R s hs name)
  | .inst name fullname args => by
    have ih := t05_abstracts_sem env R args
    have h2 : ∀ k v rest, args = k :: v :: rest →
        t05_Sem env R (toAbstractNoUn env k) (firstErr R k) (mapType R k) (typeVarsOf R k) (warningsOf R k) ∧
        t05_Sem env R (toAbstractNoUn env v) (firstErr R v) (mapType R v) (typeVarsOf R v) (warningsOf R v) := by
      intro k v rest he
      subst he
      exact ⟨t05_noUn_sem env R k, t05_noUn_sem env R v⟩
    unfold toAbstractNoUn firstErr mapType typeVarsOf warningsOf
    split_ifs with h1 h3 h4 h5 h6 h7
    · exact t05_Sem.pure _
    · exact ih.map _
    · exact ih.map _
    · exact ih.map _
    · rcases args with _ | ⟨k, _ | ⟨v, rest⟩⟩
      · exact t05_Sem.throw _ _
      · exact t05_Sem.throw _ _
      · obtain ⟨hk, hv⟩ := h2 k v rest rfl
        dsimp only
        exact t05_Sem.bind hk (hv.map _)
    · exact t05_Sem.pure _
    · exact ih.map _
  | .other _ _ => by
    rw [toAbstractNoUn, firstErr, mapType, typeVarsOf, warningsOf]
    exact (t05_Sem.andThen (t05_Sem.warn _) (t05_Sem.pure AType.unknown)).congr rfl rfl rfl rfl
theorem t05_abstracts_sem (env : AEnv) (R : Resolve) : (ts : List MType) →
    t05_Sem env R (toAbstracts env ts) (firstErrs R ts) (mapTypes R ts) (typeVarsOfs R ts) (warningsOfs R ts)
  | [] => by
    rw [toAbstracts, firstErrs, mapTypes, typeVarsOfs, warningsOfs]
    exact t05_Sem.pure _
  | t :: ts => by
    have ih1 := t05_noUn_sem env R t
    have ih2 := t05_abstracts_sem env R ts
    rw [toAbstracts, firstErrs, mapTypes, typeVarsOfs, warningsOfs]
    exact t05_Sem.bind ih1 (ih2.map _)
end

/-! ### list versions, visited sub-terms -/

theorem t05_orErr_eq_or (a b : Option PyErr) : orErr a b = a.or b := by
  cases a <;> rfl

theorem t05_orErr_none (a : Option PyErr) : orErr a none = a := by cases a <;> rfl

theorem t05_orErr_eq_none {a b : Option PyErr} : orErr a b = none ↔ a = none ∧ b = none := by
  cases a <;> simp [orErr]

theorem t05_mapTypes_eq_map (R : Resolve) : (ts : List MType) → mapTypes R ts = ts.map (mapType R)
  | [] => by rw [mapTypes]; rfl
  | t :: ts => by rw [mapTypes, List.map_cons, t05_mapTypes_eq_map R ts]

theorem t05_firstErrs_eq (R : Resolve) : (ts : List MType) → firstErrs R ts = ts.findSome? (firstErr R)
  | [] => by rw [firstErrs]; rfl
  | t :: ts => by
    rw [firstErrs, List.findSome?_cons, t05_firstErrs_eq R ts]
    cases firstErr R t <;> rfl

theorem t05_typeVarsOfs_eq (R : Resolve) : (ts : List MType) → typeVarsOfs R ts = ts.flatMap (typeVarsOf R)
  | [] => by rw [typeVarsOfs]; rfl
  | t :: ts => by rw [typeVarsOfs, List.flatMap_cons, t05_typeVarsOfs_eq R ts]

theorem t05_warningsOfs_eq (R : Resolve) : (ts : List MType) → warningsOfs R ts = ts.flatMap (warningsOf R)
  | [] => by rw [warningsOfs]; rfl
  | t :: ts => by rw [warningsOfs, List.flatMap_cons, t05_warningsOfs_eq R ts]

theorem t05_visiteds_eq : (ts : List MType) → visiteds ts = ts.flatMap visited
  | [] => by rw [visiteds]; rfl
  | t :: ts => by rw [visiteds, List.flatMap_cons, t05_visiteds_eq ts]

/-- the four scalar names exclude the container names -/
theorem t05_not_dict_of_scalar {name : String}
    (h : (name == "int" || name == "str" || name == "bool" || name == "float") = true) :
    (name == "dict" || name == "Mapping") = false := by
  simp only [Bool.or_eq_true, beq_iff_eq] at h
  rcases h with ((rfl | rfl) | rfl) | rfl <;> decide

theorem t05_not_dict_of_tuple {name : String} (h : (name == "tuple") = true) :
    (name == "dict" || name == "Mapping") = false := by
  simp only [beq_iff_eq] at h
  subst h; decide

theorem t05_not_dict_of_list {name : String}
    (h : (name == "list" || name == "Sequence" || name == "Collection") = true) :
    (name == "dict" || name == "Mapping") = false := by
  simp only [Bool.or_eq_true, beq_iff_eq] at h
  rcases h with (rfl | rfl) | rfl <;> decide

theorem t05_not_dict_of_set {name : String} (h : (name == "set") = true) :
    (name == "dict" || name == "Mapping") = false := by
  simp only [beq_iff_eq] at h
  subst h; decide

theorem t05_findSome_cons_none {α β : Type} (f : α → Option β) (a : α) (l : List α) (h : f a = none) :
    (a :: l).findSome? f = l.findSome? f := by
  rw [List.findSome?_cons, h]

mutual
theorem t05_firstErr_visited (R : Resolve) : (t : MType) → firstErr R t = (visited t).findSome? (nodeErr R)
  | .tuple items => by
    rw [firstErr, visited, t05_findSome_cons_none _ _ _ rfl]
    exact t05_firstErrs_visited R items
  | .union items => by
    rw [firstErr, visited, t05_findSome_cons_none _ _ _ rfl]
    exact t05_firstErrs_visited R items
  | .typeVar name ub ubStr => by
    rw [firstErr, visited, t05_findSome_cons_none _ _ _ rfl]
    split_ifs
    · exact t05_firstErr_visited R ub
    · rfl
  | .callable args ret => by
    rw [firstErr, visited, t05_findSome_cons_none _ _ _ rfl]
    rw [List.findSome?_append, t05_orErr_eq_or, t05_firstErrs_visited R args, t05_firstErr_visited R ret]
  | .any t missing => by
    rw [firstErr, visited, List.findSome?_singleton]; rfl
  | .none => by rw [firstErr, visited, List.findSome?_singleton]; rfl
  | .literal v => by rw [firstErr, visited, List.findSome?_singleton]; rfl
  | .unbound name args => by
    have ih := t05_firstErrs_visited R args
    have hn : nodeErr R (.unbound name args) =
      if name == "list" || name == "set" || builtinUnbound name then none else errOf (resolveUnbound R name) := rfl
    rw [firstErr, visited]
    by_cases h1 : (name == "list") = true
    · rw [t05_findSome_cons_none _ _ _ (by rw [hn, h1]; rfl)]
      simp only [if_pos h1]; exact ih
    · by_cases h2 : (name == "set") = true
      · rw [t05_findSome_cons_none _ _ _ (by rw [hn, h2, Bool.or_true]; rfl)]
        simp only [if_neg h1, if_pos h2]; exact ih
      · simp only [if_neg h1, if_neg h2]
        simp only [Bool.not_eq_true] at h1 h2
        rw [List.findSome?_singleton, hn, h1, h2]
        rfl
  | .inst name fullname args => by
    have ih := t05_firstErrs_visited R args
    have h2 : ∀ k v rest, args = k :: v :: rest →
        firstErr R k = (visited k).findSome? (nodeErr R) ∧ firstErr R v = (visited v).findSome? (nodeErr R) := by
      intro k v rest he
      subst he
      exact ⟨t05_firstErr_visited R k, t05_firstErr_visited R v⟩
    have hn : nodeErr R (.inst name fullname args) =
      if name == "dict" || name == "Mapping" then
        match args with
        | _ :: _ :: _ => none
        | _ => some .indexError
      else none := rfl
    unfold firstErr visited
    by_cases h1 : (name == "int" || name == "str" || name == "bool" || name == "float") = true
    · simp only [if_pos h1]
      rw [List.findSome?_singleton, hn, t05_not_dict_of_scalar h1]; rfl
    · simp only [if_neg h1]
      by_cases h3 : (name == "tuple") = true
      · simp only [if_pos h3]
        rw [t05_findSome_cons_none _ _ _ (by rw [hn, t05_not_dict_of_tuple h3]; rfl)]; exact ih
      · simp only [if_neg h3]
        by_cases h4 : (name == "list" || name == "Sequence" || name == "Collection") = true
        · simp only [if_pos h4]
          rw [t05_findSome_cons_none _ _ _ (by rw [hn, t05_not_dict_of_list h4]; rfl)]; exact ih
        · simp only [if_neg h4]
          by_cases h5 : (name == "set") = true
          · simp only [if_pos h5]
            rw [t05_findSome_cons_none _ _ _ (by rw [hn, t05_not_dict_of_set h5]; rfl)]; exact ih
          · simp only [if_neg h5]
            by_cases h6 : (name == "dict" || name == "Mapping") = true
            · simp only [if_pos h6]
              rcases args with _ | ⟨k, _ | ⟨v, rest⟩⟩
              · rw [List.findSome?_singleton, hn, h6]; rfl
              · rw [List.findSome?_singleton, hn, h6]; rfl
              · obtain ⟨hk, hv⟩ := h2 k v rest rfl
                rw [t05_findSome_cons_none _ _ _ (by rw [hn, h6]; rfl)]
                dsimp only
                rw [List.findSome?_append, t05_orErr_eq_or, hk, hv]
            · simp only [if_neg h6]
              simp only [Bool.not_eq_true] at h6
              rw [t05_findSome_cons_none _ _ _ (by rw [hn, h6]; rfl)]
              split_ifs with h7
              · simp only [List.isEmpty_iff] at h7
                subst h7
                rfl
              · exact ih
  | .other _ _ => by rw [firstErr, visited, List.findSome?_singleton]; rfl
theorem t05_firstErrs_visited (R : Resolve) : (ts : List MType) → firstErrs R ts = (visiteds ts).findSome? (nodeErr R)
  | [] => by rw [firstErrs, visiteds]; rfl
  | t :: ts => by
    rw [firstErrs, visiteds, List.findSome?_append, t05_orErr_eq_or, t05_firstErr_visited R t,
      t05_firstErrs_visited R ts]
end

/-! ### where the unknown marker comes from -/

def t05_bad (R : Resolve) (u : MType) : Bool := unknownNode R u || (nodeErr R u).isSome

theorem t05_any_cons_false {α : Type} (f : α → Bool) (a : α) (l : List α) (h : f a = false) :
    (a :: l).any f = l.any f := by
  rw [List.any_cons, h, Bool.false_or]

theorem t05_any_singleton {α : Type} (f : α → Bool) (a : α) : [a].any f = f a := by
  rw [List.any_cons, List.any_nil, Bool.or_false]

/-- a resolved name is an error, the unknown marker, or a named type -/
def t05_ResShape (r : Except PyErr AType) : Prop :=
  (∃ e, r = .error e) ∨ r = .ok .unknown ∨ ∃ n q, r = .ok (.named n q)

theorem t05_resolveAlias_shape (R : Resolve) (n : String) : t05_ResShape (resolveAlias R n) := by
  unfold resolveAlias
  cases R.alias n with
  | error e => exact Or.inl ⟨e, rfl⟩
  | ok r =>
    obtain ⟨n', q⟩ := r
    dsimp only
    split_ifs
    · exact Or.inr (Or.inl rfl)
    · exact Or.inr (Or.inr ⟨_, _, rfl⟩)

theorem t05_resolveUnbound_shape (R : Resolve) (n : String) : t05_ResShape (resolveUnbound R n) := by
  unfold resolveUnbound
  cases R.classes with
  | none => exact Or.inl ⟨_, rfl⟩
  | some cs =>
    dsimp only
    cases cs.find? (fun c => c.name == n) with
    | some c => exact Or.inr (Or.inr ⟨_, _, rfl⟩)
    | none => exact t05_resolveAlias_shape R n

theorem t05_shape_unknown {r : Except PyErr AType} (h : t05_ResShape r) :
    hasUnknown (valOf r) = (isUnknownRes r || (errOf r).isSome) := by
  rcases h with ⟨e, rfl⟩ | rfl | ⟨n, q, rfl⟩ <;> rfl

mutual
theorem t05_hasUnknown_visited (R : Resolve) : (t : MType) →
    hasUnknown (mapType R t) = (visited t).any (t05_bad R)
  | .tuple items => by
    rw [mapType, hasUnknown, visited, t05_any_cons_false _ _ _ rfl]
    exact t05_hasUnknowns_visited R items
  | .union items => by
    rw [mapType, hasUnknown, visited, t05_any_cons_false _ _ _ rfl]
    exact t05_hasUnknowns_visited R items
  | .typeVar name ub ubStr => by
    have ih := t05_hasUnknown_visited R ub
    rw [mapType, visited, t05_any_cons_false _ _ _ rfl]
    by_cases hb : (ubStr != "builtins.object") = true
    · simp only [if_pos hb]
      by_cases hn : (name == "Self") = true
      · simp only [if_pos hn]; exact ih
      · simp only [if_neg hn]; rw [hasUnknown]; exact ih
    · simp only [if_neg hb]; rfl
  | .callable args ret => by
    rw [mapType, hasUnknown, visited, t05_any_cons_false _ _ _ rfl, List.any_append,
      t05_hasUnknowns_visited R args, t05_hasUnknown_visited R ret]
  | .any t missing => by
    have hb : t05_bad R (.any t missing) =
      ((t == fromUnimportedType && isUnknownRes (resolveAlias R (lastD "" (splitDot missing)))) ||
        (if t == fromUnimportedType then errOf (resolveAlias R (lastD "" (splitDot missing))) else none).isSome) := rfl
    rw [mapType, visited, t05_any_singleton, hb]
    by_cases ht : (t == fromUnimportedType) = true
    · simp only [ht, Bool.true_and]
      exact t05_shape_unknown (t05_resolveAlias_shape R _)
    · simp only [if_neg ht]
      simp only [Bool.not_eq_true] at ht
      rw [ht]; rfl
  | .none => by rw [mapType, visited]; rfl
  | .literal v => by rw [mapType, visited]; rfl
  | .unbound name args => by
    have ih := t05_hasUnknowns_visited R args
    have hb : t05_bad R (.unbound name args) =
      ((!(name == "list" || name == "set" || builtinUnbound name) && isUnknownRes (resolveUnbound R name)) ||
       (if name == "list" || name == "set" || builtinUnbound name then none
        else errOf (resolveUnbound R name)).isSome) := rfl
    rw [mapType, visited]
    by_cases h1 : (name == "list") = true
    · rw [t05_any_cons_false _ _ _ (by rw [hb, h1]; rfl)]
      simp only [if_pos h1]; rw [hasUnknown]; exact ih
    · by_cases h2 : (name == "set") = true
      · rw [t05_any_cons_false _ _ _ (by rw [hb, h2, Bool.or_true]; rfl)]
        simp only [if_neg h1, if_pos h2]; rw [hasUnknown]; exact ih
      · simp only [if_neg h1, if_neg h2]
        simp only [Bool.not_eq_true] at h1 h2
        rw [t05_any_singleton, hb, h1, h2]
        by_cases h3 : builtinUnbound name = true
        · simp only [h3]; rfl
        · simp only [if_neg h3]
          simp only [Bool.not_eq_true] at h3
          rw [h3]
          exact t05_shape_unknown (t05_resolveUnbound_shape R _)
  | .inst name fullname args => by
    have ih := t05_hasUnknowns_visited R args
    have h2 : ∀ k v rest, args = k :: v :: rest →
        hasUnknown (mapType R k) = (visited k).any (t05_bad R) ∧
        hasUnknown (mapType R v) = (visited v).any (t05_bad R) := by
      intro k v rest he
      subst he
      exact ⟨t05_hasUnknown_visited R k, t05_hasUnknown_visited R v⟩
    have hb : t05_bad R (.inst name fullname args) =
      (false || (if name == "dict" || name == "Mapping" then
        match args with
        | _ :: _ :: _ => none
        | _ => some PyErr.indexError
      else none).isSome) := rfl
    unfold mapType visited
    by_cases h1 : (name == "int" || name == "str" || name == "bool" || name == "float") = true
    · simp only [if_pos h1]
      rw [t05_any_singleton, hb, t05_not_dict_of_scalar h1]; rfl
    · simp only [if_neg h1]
      by_cases h3 : (name == "tuple") = true
      · simp only [if_pos h3]
        rw [t05_any_cons_false _ _ _ (by rw [hb, t05_not_dict_of_tuple h3]; rfl), hasUnknown]; exact ih
      · simp only [if_neg h3]
        by_cases h4 : (name == "list" || name == "Sequence" || name == "Collection") = true
        · simp only [if_pos h4]
          rw [t05_any_cons_false _ _ _ (by rw [hb, t05_not_dict_of_list h4]; rfl), hasUnknown]; exact ih
        · simp only [if_neg h4]
          by_cases h5 : (name == "set") = true
          · simp only [if_pos h5]
            rw [t05_any_cons_false _ _ _ (by rw [hb, t05_not_dict_of_set h5]; rfl), hasUnknown]; exact ih
          · simp only [if_neg h5]
            by_cases h6 : (name == "dict" || name == "Mapping") = true
            · simp only [if_pos h6]
              rcases args with _ | ⟨k, _ | ⟨v, rest⟩⟩
              · rw [t05_any_singleton, hb, h6]; rfl
              · rw [t05_any_singleton, hb, h6]; rfl
              · obtain ⟨hk, hv⟩ := h2 k v rest rfl
                rw [t05_any_cons_false _ _ _ (by rw [hb, h6]; rfl)]
                dsimp only
                rw [hasUnknown, List.any_append, hk, hv]
            · simp only [if_neg h6]
              simp only [Bool.not_eq_true] at h6
              rw [t05_any_cons_false _ _ _ (by rw [hb, h6]; rfl)]
              split_ifs with h7
              · simp only [List.isEmpty_iff] at h7
                subst h7
                rfl
              · rw [hasUnknown]; exact ih
  | .other _ _ => by rw [mapType, visited]; rfl
theorem t05_hasUnknowns_visited (R : Resolve) : (ts : List MType) →
    hasUnknowns (mapTypes R ts) = (visiteds ts).any (t05_bad R)
  | [] => by rw [mapTypes, visiteds]; rfl
  | t :: ts => by
    rw [mapTypes, hasUnknowns, visiteds, List.any_append, t05_hasUnknown_visited R t,
      t05_hasUnknowns_visited R ts]
end


/-! ### the un-analysed annotation -/

/-- the `Final[...]` branch of `mypy_type_to_abstract_type` -/
def t05_finalRun (env : AEnv) (args : List MType) : V AType := do
  let ts ← toAbstracts env args
  match ts with
  | [] => throwV .valueError
  | [x] => pure (.final x)
  | xs => pure (.final (.union xs))

theorem t05_toAbstract_eq (env : AEnv) (t : MType) (un : Option MType) :
    toAbstract env t un =
      match unCase t un with
      | .final args => t05_finalRun env args
      | .reparse u => toAbstractNoUn env u
      | .tuple items => toAbstractNoUn env (.tuple items)
      | .plain => toAbstractNoUn env t := by
  unfold toAbstract unCase
  cases un with
  | none => rfl
  | some u =>
    dsimp only
    cases hn : hasName u with
    | none =>
      dsimp only
      cases u <;> rfl
    | some n =>
      by_cases hf : n = "Final"
      · subst hf
        rfl
      · simp only [hf, if_false]
        by_cases hl : (n == "list" || n == "set") = true
        · simp only [if_pos hl]
          rcases argsOf t with _ | ⟨a, _ | ⟨b, r⟩⟩
          · rfl
          · dsimp only
            by_cases ha : isIncorrectAny a = true
            · simp only [if_pos ha]
            · simp only [if_neg ha]
          · rfl
        · simp only [if_neg hl]

theorem t05_final_sem (env : AEnv) (R : Resolve) (args : List MType) :
    t05_Sem env R (t05_finalRun env args)
      (orErr (firstErrs R args) (if args.isEmpty then some .valueError else none))
      (finalOf (mapTypes R args)) (typeVarsOfs R args) (warningsOfs R args) := by
  have ih := t05_abstracts_sem env R args
  unfold t05_finalRun
  refine (t05_Sem.bind ih (e2 := if args.isEmpty then some .valueError else none) (tv2 := []) (w2 := [])
    (b := finalOf (mapTypes R args)) ?_).congr rfl rfl (List.append_nil _) (List.append_nil _)
  rcases args with _ | ⟨a, _ | ⟨b, r⟩⟩
  · exact t05_Sem.throw _ _
  · exact t05_Sem.pure _
  · exact t05_Sem.pure _

theorem t05_toAbstract_sem (env : AEnv) (R : Resolve) (t : MType) (un : Option MType) :
    t05_Sem env R (toAbstract env t un) (firstErrUn R t un) (mapTypeUn R t un) (typeVarsOfUn R t un)
      (warningsOfUn R t un) := by
  rw [t05_toAbstract_eq]
  unfold firstErrUn mapTypeUn typeVarsOfUn warningsOfUn
  cases unCase t un with
  | final args => exact t05_final_sem env R args
  | reparse u => exact t05_noUn_sem env R u
  | tuple items =>
    have := t05_noUn_sem env R (.tuple items)
    rw [firstErr, mapType, typeVarsOf, warningsOf] at this
    exact this
  | plain => exact t05_noUn_sem env R t


/-! ### warnings and recorded type variables are functions of the RESULT -/

/-- what the state receives, read off the result -/
def t05_Eff (R : Resolve) (t : MType) : Prop :=
  warningsOf R t = List.replicate (countUnknown (mapType R t)) unknownMsg ∧ typeVarsOf R t = tvarsIn (mapType R t)

def t05_Effs (R : Resolve) (ts : List MType) : Prop :=
  warningsOfs R ts = List.replicate (countUnknowns (mapTypes R ts)) unknownMsg ∧
  typeVarsOfs R ts = tvarsIns (mapTypes R ts)

theorem t05_shape_eff {r : Except PyErr AType} (h : t05_ResShape r) (he : errOf r = none) :
    warnOf r = List.replicate (countUnknown (valOf r)) unknownMsg ∧ tvarsIn (valOf r) = [] := by
  rcases h with ⟨e, rfl⟩ | rfl | ⟨n, q, rfl⟩
  · exact absurd he (by simp [errOf])
  · exact ⟨rfl, rfl⟩
  · exact ⟨rfl, rfl⟩

theorem t05_Eff.of_list {R : Resolve} {ts : List MType} {w : List String} {tv : List (String × Option AType)}
    {a : AType} (h : t05_Effs R ts) (hw : w = warningsOfs R ts) (ht : tv = typeVarsOfs R ts)
    (hc : countUnknown a = countUnknowns (mapTypes R ts)) (hv : tvarsIn a = tvarsIns (mapTypes R ts)) :
    w = List.replicate (countUnknown a) unknownMsg ∧ tv = tvarsIn a := by
  rw [hw, ht, hc, hv]; exact h

mutual
theorem t05_eff (R : Resolve) : (t : MType) → firstErr R t = none → t05_Eff R t
  | .tuple items => by
    intro he
    rw [firstErr] at he
    have ih := t05_effs R items he
    unfold t05_Eff
    rw [warningsOf, typeVarsOf, mapType]
    exact t05_Eff.of_list ih rfl rfl (by rw [countUnknown]) (by rw [tvarsIn])
  | .union items => by
    intro he
    rw [firstErr] at he
    have ih := t05_effs R items he
    unfold t05_Eff
    rw [warningsOf, typeVarsOf, mapType]
    exact t05_Eff.of_list ih rfl rfl (by rw [countUnknown]) (by rw [tvarsIn])
  | .typeVar name ub ubStr => by
    intro he
    rw [firstErr] at he
    unfold t05_Eff
    rw [warningsOf, typeVarsOf, mapType]
    by_cases hb : (ubStr != "builtins.object") = true
    · simp only [if_pos hb] at he ⊢
      have ih := t05_eff R ub he
      by_cases hn : (name == "Self") = true
      · simp only [if_pos hn]; exact ih
      · simp only [if_neg hn]
        rw [countUnknown, tvarsIn, ih.1, ih.2]
        exact ⟨rfl, rfl⟩
    · simp only [if_neg hb]
      exact ⟨rfl, rfl⟩
  | .callable args ret => by
    intro he
    rw [firstErr, t05_orErr_eq_none] at he
    have ih1 := t05_effs R args he.1
    have ih2 := t05_eff R ret he.2
    unfold t05_Eff
    rw [warningsOf, typeVarsOf, mapType, countUnknown, tvarsIn, ← List.replicate_append_replicate, ih1.1, ih1.2, ih2.1, ih2.2]
    exact ⟨rfl, rfl⟩
  | .any t missing => by
    intro he
    rw [firstErr] at he
    unfold t05_Eff
    rw [warningsOf, typeVarsOf, mapType]
    by_cases ht : (t == fromUnimportedType) = true
    · simp only [if_pos ht] at he ⊢
      have := t05_shape_eff (t05_resolveAlias_shape R _) he
      exact ⟨this.1, this.2.symm⟩
    · simp only [if_neg ht]
      exact ⟨rfl, rfl⟩
  | .none => fun _ => ⟨by rw [warningsOf, mapType]; rfl, by rw [typeVarsOf, mapType]; rfl⟩
  | .literal v => fun _ => ⟨by rw [warningsOf, mapType]; rfl, by rw [typeVarsOf, mapType]; rfl⟩
  | .unbound name args => by
    intro he
    rw [firstErr] at he
    unfold t05_Eff
    rw [warningsOf, typeVarsOf, mapType]
    by_cases h1 : (name == "list") = true
    · simp only [if_pos h1] at he ⊢
      exact t05_Eff.of_list (t05_effs R args he) rfl rfl (by rw [countUnknown]) (by rw [tvarsIn])
    · simp only [if_neg h1] at he ⊢
      by_cases h2 : (name == "set") = true
      · simp only [if_pos h2] at he ⊢
        exact t05_Eff.of_list (t05_effs R args he) rfl rfl (by rw [countUnknown]) (by rw [tvarsIn])
      · simp only [if_neg h2] at he ⊢
        by_cases h3 : builtinUnbound name = true
        · simp only [if_pos h3]
          exact ⟨rfl, rfl⟩
        · simp only [if_neg h3] at he ⊢
          have := t05_shape_eff (t05_resolveUnbound_shape R _) he
          exact ⟨this.1, this.2.symm⟩
  | .inst name fullname args => by
    intro he
    have ih : firstErrs R args = none → t05_Effs R args := t05_effs R args
    have h2 : ∀ k v rest, args = k :: v :: rest →
        (firstErr R k = none → t05_Eff R k) ∧ (firstErr R v = none → t05_Eff R v) := by
      intro k v rest he
      subst he
      exact ⟨t05_eff R k, t05_eff R v⟩
    unfold t05_Eff
    unfold firstErr at he
    unfold warningsOf typeVarsOf mapType
    by_cases h1 : (name == "int" || name == "str" || name == "bool" || name == "float") = true
    · simp only [if_pos h1]
      exact ⟨rfl, rfl⟩
    · simp only [if_neg h1] at he ⊢
      by_cases h3 : (name == "tuple") = true
      · simp only [if_pos h3] at he ⊢
        exact t05_Eff.of_list (ih he) rfl rfl (by rw [countUnknown]) (by rw [tvarsIn])
      · simp only [if_neg h3] at he ⊢
        by_cases h4 : (name == "list" || name == "Sequence" || name == "Collection") = true
        · simp only [if_pos h4] at he ⊢
          exact t05_Eff.of_list (ih he) rfl rfl (by rw [countUnknown]) (by rw [tvarsIn])
        · simp only [if_neg h4] at he ⊢
          by_cases h5 : (name == "set") = true
          · simp only [if_pos h5] at he ⊢
            exact t05_Eff.of_list (ih he) rfl rfl (by rw [countUnknown]) (by rw [tvarsIn])
          · simp only [if_neg h5] at he ⊢
            by_cases h6 : (name == "dict" || name == "Mapping") = true
            · simp only [if_pos h6] at he ⊢
              rcases args with _ | ⟨k, _ | ⟨v, rest⟩⟩
              · exact absurd he (by simp)
              · exact absurd he (by simp)
              · obtain ⟨hk, hv⟩ := h2 k v rest rfl
                dsimp only at he ⊢
                rw [t05_orErr_eq_none] at he
                have ik := hk he.1
                have iv := hv he.2
                rw [countUnknown, tvarsIn, ← List.replicate_append_replicate, ik.1, ik.2, iv.1, iv.2]
                exact ⟨rfl, rfl⟩
            · simp only [if_neg h6] at he ⊢
              by_cases h7 : args.isEmpty = true
              · simp only [if_pos h7]
                exact ⟨rfl, rfl⟩
              · simp only [if_neg h7] at he ⊢
                exact t05_Eff.of_list (ih he) rfl rfl (by rw [countUnknown]) (by rw [tvarsIn])
  | .other _ _ => fun _ => ⟨by rw [warningsOf, mapType]; rfl, by rw [typeVarsOf, mapType]; rfl⟩
theorem t05_effs (R : Resolve) : (ts : List MType) → firstErrs R ts = none → t05_Effs R ts
  | [] => fun _ => ⟨by rw [warningsOfs, mapTypes]; rfl, by rw [typeVarsOfs, mapTypes]; rfl⟩
  | t :: ts => by
    intro he
    rw [firstErrs, t05_orErr_eq_none] at he
    have ih1 := t05_eff R t he.1
    have ih2 := t05_effs R ts he.2
    unfold t05_Effs
    rw [warningsOfs, typeVarsOfs, mapTypes, countUnknowns, tvarsIns, ← List.replicate_append_replicate, ih1.1, ih1.2, ih2.1, ih2.2]
    exact ⟨rfl, rfl⟩
end

/-! ### what the resolver depends on -/

theorem t05_resolveOf_congr (env : AEnv) (s s' : VSt) (h1 : s'.stack = s.stack)
    (h2 : s'.fileFullname = s.fileFullname) : resolveOf env s' = resolveOf env s := by
  unfold resolveOf findAlias bottomModule
  rw [h1, h2]

theorem t05_findAlias_error_iff (env : AEnv) (s : VSt) (n : String) (e : PyErr) :
    findAlias env s n = .error e ↔ bottomModule s = none ∧ e = .typeError := by
  unfold findAlias
  cases bottomModule s with
  | none => simp [eq_comm]
  | some m =>
    simp only [reduceCtorEq, false_and, iff_false]
    split_ifs
    · simp
    · simp
    · split <;> simp

end StubGen
