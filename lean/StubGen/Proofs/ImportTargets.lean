/-
What `_add_to_imports` can add to the import set of a stub, and when it is a bracket-free qualified name.
-/
import StubGen.Proofs.ShortestMem
import StubGen.Proofs.Imports
import StubGen.Proofs.Doc

namespace StubGen

/-- a dotted spelling made of convertible segments -/
theorem it_pathBal_join (parts : List String) (hne : parts ≠ []) (h : parts.all (fun s => Convertible s.toList) = true) :
    Spec.pathBal (joinWith "." parts) = true := by
  unfold Spec.pathBal
  have e : ("." : String) = String.singleton '.' := by decide
  rw [e, lx_pySplit_joinWith '.' _ hne]
  · exact h
  · intro x hx
    exact sm_convertible_noDot (List.all_eq_true.mp h x hx)

theorem it_replace_slash (id : String) : replaceChar id '/' "." = joinWith "." (splitSlash id) :=
  replaceChar_eq_joinWith id '/' '.' "." (by decide)

theorem it_splitDot_dotted (id : String) (h : sm_idBal id = true) :
    splitDot (joinWith "." (splitSlash id)) = splitSlash id := by
  unfold splitDot
  have e : ("." : String) = String.singleton '.' := by decide
  unfold sm_idBal at h
  rw [e, lx_pySplit_joinWith '.' _ (by unfold splitSlash; exact lx_pySplit_ne_nil id '/')]
  intro x hx
  exact sm_convertible_noDot (List.all_eq_true.mp h x hx)

/-- the path registered for a class of the package: its own dotted id, or `<re-exporting package>.<class name>` -/
theorem it_classTarget_bal (env : Env) (c : Class) (hc : sm_idBal c.id = true)
    (hre : ∀ kv ∈ env.api.reexportMap, ∀ r ∈ kv.2, sm_idBal r.id = true) :
    Spec.pathBal (q11_classTarget env c) = true := by
  unfold q11_classTarget
  dsimp only
  rw [it_replace_slash, it_splitDot_dotted c.id hc]
  have hne : splitSlash c.id ≠ [] := by unfold splitSlash; exact lx_pySplit_ne_nil c.id '/'
  have hname : Convertible (lastD "" (splitSlash c.id)).toList = true := by
    unfold sm_idBal at hc
    exact List.all_eq_true.mp hc _ (lx_lastD_mem "" _ hne)
  rcases sm_shortest_is_reexporter env.api.reexportMap (lastD "" (splitSlash c.id)) (joinWith "." (splitSlash c.id)) false
    with h | ⟨kv, hkv, r, hr, h⟩
  · rw [h]
    simp only [bne_self_eq_false, Bool.false_eq_true, if_false]
    exact sm_pathBal_dotted c.id hc
  · split
    · rw [h]
      have hr' := hre kv hkv r hr
      have hne' : splitSlash r.id ≠ [] := by unfold splitSlash; exact lx_pySplit_ne_nil r.id '/'
      have e : joinWith "." (splitSlash r.id) ++ "." ++ lastD "" (splitSlash c.id)
          = joinWith "." (splitSlash r.id ++ [lastD "" (splitSlash c.id)]) := by
        rw [joinWith_append "." _ _ hne' (by simp)]
        simp [joinWith]
      rw [e]
      apply it_pathBal_join _ (by simp)
      unfold sm_idBal at hr'
      simp only [List.all_append, Bool.and_eq_true, List.all_cons, List.all_nil, Bool.and_true]
      exact ⟨hr', hname⟩
    · exact sm_pathBal_dotted c.id hc

/-- … so the path registered for a request `q` is bracket-free when `q` is and the ids of the package are -/
theorem it_target_bal (env : Env) (q : String) (hq : Spec.pathBal q = true)
    (hcls : ∀ c ∈ env.api.classes, sm_idBal c.id = true)
    (hre : ∀ kv ∈ env.api.reexportMap, ∀ r ∈ kv.2, sm_idBal r.id = true) :
    Spec.pathBal (q11_target env q) = true := by
  unfold q11_target
  split
  · rename_i c hfound
    have hmem : c ∈ env.api.classes := by
      unfold q11_found at hfound
      exact List.mem_of_find?_eq_some hfound
    split
    · exact it_classTarget_bal env c (hcls c hmem) hre
    · exact hq
  · exact hq

/-- ONE REGISTRATION STEP keeps the import set bracket-free -/
theorem it_addToImports_keeps (env : Env) (q : String) (st st' : St) (u : Unit)
    (h : addToImports env q st = .ok (u, st')) (hq : Spec.pathBal q = true)
    (hcls : ∀ c ∈ env.api.classes, sm_idBal c.id = true)
    (hre : ∀ kv ∈ env.api.reexportMap, ∀ r ∈ kv.2, sm_idBal r.id = true)
    (hst : ∀ imp ∈ st.imports, Spec.pathBal imp = true) :
    ∀ imp ∈ st'.imports, Spec.pathBal imp = true := by
  obtain ⟨_, rfl⟩ := q11_addToImports_ok h
  intro imp himp
  unfold q11_effect at himp
  split at himp
  · exact hst imp himp
  · dsimp only at himp
    split at himp
    · have : imp ∈ insertSet (q11_target env q) st.imports := by
        split at himp <;> simpa using himp
      rcases mem_insertSet.mp this with e | hm
      · rw [e]; exact it_target_bal env q hq hcls hre
      · exact hst imp hm
    · have : imp ∈ st.imports := by
        split at himp <;> simpa using himp
      exact hst imp this

end StubGen
