/-
Helper lemmas about `API.to_dict` (`Model/ApiDict.lean`).
-/
import StubGen.Model.ApiDict
import StubGen.Proofs.Order
import StubGen.Proofs.Inventory

namespace StubGen

/-- `d[key]` of a JSON object (`null` if absent / not an object) -/
def JVal.get (j : JVal) (k : String) : JVal :=
  match j with
  | .dict items => (assocGet? items k).getD .null
  | _ => .null

def JVal.idOf (j : JVal) : Option String :=
  match j.get "id" with
  | .str s => some s
  | _ => none

/-- the `"id"`s of the entries of a JSON list -/
def JVal.idList (j : JVal) : List String :=
  match j with
  | .list xs => xs.filterMap JVal.idOf
  | _ => []

theorem aj_sortedById_ids {α : Type} (key : α → String) (tbl : List α) :
    (sortedById key tbl).map key = sortStrings (tbl.map key) := by
  unfold sortedById sortStrings
  exact p08_sortBy_map key _ strLe (fun _ _ => rfl) tbl

theorem aj_idList_map {α : Type} (key : α → String) (toJ : α → JVal) (h : ∀ a, (toJ a).idOf = some (key a)) (l : List α) :
    (JVal.list (l.map toJ)).idList = l.map key := by
  unfold JVal.idList
  induction l with
  | nil => rfl
  | cons a as ih =>
    simp only [List.map_cons, List.filterMap_cons, h a]
    simp only at ih
    rw [ih]

theorem aj_mapExcept_ids {α : Type} (key : α → String) (f : α → Except PyErr JVal)
    (h : ∀ a j, f a = .ok j → j.idOf = some (key a)) :
    ∀ (l : List α) (js : List JVal), mapExcept f l = .ok js → (JVal.list js).idList = l.map key
  | [], js, hm => by
    simp only [mapExcept, Except.ok.injEq] at hm
    subst hm; rfl
  | a :: as, js, hm => by
    simp only [mapExcept, bind, Except.bind] at hm
    cases hf : f a with
    | error e => simp [hf] at hm
    | ok j =>
      simp only [hf] at hm
      cases hr : mapExcept f as with
      | error e => simp [hr] at hm
      | ok js' =>
        simp only [hr, pure, Except.pure, Except.ok.injEq] at hm
        subst hm
        have ih := aj_mapExcept_ids key f h as js' hr
        unfold JVal.idList at *
        simp only [List.filterMap_cons, h a j hf, List.map_cons]
        simp only at ih
        rw [ih]

theorem aj_module_id (m : Module) : m.toJ.idOf = some m.id := rfl
theorem aj_class_id (c : Class) : c.toJ.idOf = some c.id := rfl
theorem aj_function_id (f : Function) : f.toJ.idOf = some f.id := rfl
theorem aj_result_id (r : Result) : r.toJ.idOf = some r.id := rfl
theorem aj_enum_id (e : Enum) : e.toJ.idOf = some e.id := rfl
theorem aj_enumInstance_id (e : EnumInstance) : e.toJ.idOf = some e.id := rfl

theorem aj_attribute_id (a : Attribute) (j : JVal) (h : a.toJ = .ok j) : j.idOf = some a.id := by
  unfold Attribute.toJ at h
  cases ht : asdictOpt a.doc.type with
  | error e => simp [ht, bind, Except.bind] at h
  | ok t =>
    simp only [ht, bind, Except.bind, pure, Except.pure, Except.ok.injEq] at h
    subst h; rfl

theorem aj_parameter_id (p : Parameter) (j : JVal) (h : p.toJ = .ok j) : j.idOf = some p.id := by
  unfold Parameter.toJ at h
  cases ht : asdictOpt p.doc.type with
  | error e => simp [ht, bind, Except.bind] at h
  | ok t =>
    simp only [ht, bind, Except.bind, pure, Except.pure, Except.ok.injEq] at h
    subst h; rfl

/-- the shape of `API.to_dict()` -/
theorem aj_toJ_ok {pkg : String} {r : AnaResult} {j : JVal} (h : r.toJ pkg = .ok j) :
    ∃ attrs params,
      mapExcept Attribute.toJ (sortedById (·.id) r.attributes) = .ok attrs ∧
      mapExcept Parameter.toJ (sortedById (·.id) r.parameters) = .ok params ∧
      j = .dict [("schemaVersion", .int 1), ("distribution", .str ""), ("package", .str pkg), ("version", .str ""),
        ("modules", .list ((sortedById (·.id) r.modules).map Module.toJ)),
        ("classes", .list ((sortedById (·.id) r.classes).map Class.toJ)),
        ("functions", .list ((sortedById (·.id) r.functions).map Function.toJ)),
        ("results", .list ((sortedById (·.id) r.results).map Result.toJ)),
        ("enums", .list ((sortedById (·.id) r.enums).map Enum.toJ)),
        ("enum_instances", .list ((sortedById (·.id) r.enumInstances).map EnumInstance.toJ)),
        ("attributes", .list attrs),
        ("parameters", .list params)] := by
  unfold AnaResult.toJ at h
  cases ha : mapExcept Attribute.toJ (sortedById (·.id) r.attributes) with
  | error e => simp [ha, bind, Except.bind] at h
  | ok attrs =>
    cases hp : mapExcept Parameter.toJ (sortedById (·.id) r.parameters) with
    | error e => simp [ha, hp, bind, Except.bind] at h
    | ok params =>
      simp only [ha, hp, bind, Except.bind, pure, Except.pure, Except.ok.injEq] at h
      exact ⟨attrs, params, rfl, rfl, h.symm⟩

end StubGen
