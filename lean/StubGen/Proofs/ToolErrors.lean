/-
Errors of the serialisation step (`API.to_json_file`): only the `TypeError` of a frozenset inside a docstring record.
-/
import StubGen.Model.ApiDict

namespace StubGen

mutual
theorem te_asdict_err : ∀ (t : AType) (e : PyErr), t.asdict = .error e → e = .typeError
  | .unknown, e, h => by simp [AType.asdict] at h
  | .named _ _, e, h => by simp [AType.asdict] at h
  | .namedSeq n q ts, e, h => by
    have := te_asdictL_err ts e
    simp only [AType.asdict, bind, Except.bind, pure, Except.pure] at h
    grind
  | .enum _, e, h => by simp [AType.asdict] at h; exact h.symm
  | .boundary .., e, h => by simp [AType.asdict] at h
  | .union ts, e, h => by
    have := te_asdictL_err ts e
    simp only [AType.asdict, bind, Except.bind, pure, Except.pure] at h
    grind
  | .list ts, e, h => by
    have := te_asdictL_err ts e
    simp only [AType.asdict, bind, Except.bind, pure, Except.pure] at h
    grind
  | .dict k v, e, h => by
    have := te_asdict_err k e
    have := te_asdict_err v e
    simp only [AType.asdict, bind, Except.bind, pure, Except.pure] at h
    grind
  | .callable ps r, e, h => by
    have := te_asdictL_err ps e
    have := te_asdict_err r e
    simp only [AType.asdict, bind, Except.bind, pure, Except.pure] at h
    grind
  | .set ts, e, h => by
    have := te_asdictL_err ts e
    simp only [AType.asdict, bind, Except.bind, pure, Except.pure] at h
    grind
  | .literal _, e, h => by simp [AType.asdict] at h
  | .final t, e, h => by
    have := te_asdict_err t e
    simp only [AType.asdict, bind, Except.bind, pure, Except.pure] at h
    grind
  | .tuple ts, e, h => by
    have := te_asdictL_err ts e
    simp only [AType.asdict, bind, Except.bind, pure, Except.pure] at h
    grind
  | .typeVar _, e, h => by simp [AType.asdict] at h
  | .typeVarB n u, e, h => by
    have := te_asdict_err u e
    simp only [AType.asdict, bind, Except.bind, pure, Except.pure] at h
    grind
theorem te_asdictL_err : ∀ (ts : List AType) (e : PyErr), AType.asdictL ts = .error e → e = .typeError
  | [], e, h => by simp [AType.asdictL] at h
  | t :: ts, e, h => by
    have := te_asdict_err t e
    have := te_asdictL_err ts e
    simp only [AType.asdictL, bind, Except.bind, pure, Except.pure] at h
    grind
end

theorem te_asdictOpt_err (o : Option AType) (e : PyErr) (h : asdictOpt o = .error e) : e = .typeError := by
  cases o with
  | none => simp [asdictOpt] at h
  | some t => exact te_asdict_err t e (by simpa [asdictOpt] using h)

theorem te_mapExcept_err {α β : Type} (f : α → Except PyErr β) (hf : ∀ a e, f a = .error e → e = .typeError) :
    ∀ (l : List α) (e : PyErr), mapExcept f l = .error e → e = .typeError
  | [], e, h => by simp [mapExcept] at h
  | a :: as, e, h => by
    have h1 := hf a e
    have h2 := te_mapExcept_err f hf as e
    simp only [mapExcept, bind, Except.bind, pure, Except.pure] at h
    grind

theorem te_Parameter_toJ_err (p : Parameter) (e : PyErr) (h : p.toJ = .error e) : e = .typeError := by
  have := te_asdictOpt_err p.doc.type e
  simp only [Parameter.toJ, bind, Except.bind, pure, Except.pure] at h
  grind

theorem te_Attribute_toJ_err (a : Attribute) (e : PyErr) (h : a.toJ = .error e) : e = .typeError := by
  have := te_asdictOpt_err a.doc.type e
  simp only [Attribute.toJ, bind, Except.bind, pure, Except.pure] at h
  grind

/-- the only error of writing the API file is the `TypeError` of `json.dump` on a docstring record that holds an enum type -/
theorem te_apiJsonText_err (pkg : String) (r : AnaResult) (e : PyErr) (h : apiJsonText pkg r = .error e) : e = .typeError := by
  have h1 := te_mapExcept_err Attribute.toJ te_Attribute_toJ_err (sortedById (·.id) r.attributes) e
  have h2 := te_mapExcept_err Parameter.toJ te_Parameter_toJ_err (sortedById (·.id) r.parameters) e
  simp only [apiJsonText, AnaResult.toJ, bind, Except.bind, pure, Except.pure] at h
  grind

end StubGen
