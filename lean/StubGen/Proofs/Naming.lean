import Batteries.Data.Char.AsciiCasing
import StubGen.Model.Naming
import StubGen.Spec.Lex

namespace StubGen

/-! ### `splitOnChar` -/

theorem splitOnChar_ne_nil (sep : Char) (cs : List Char) : splitOnChar sep cs ≠ [] := by
  induction cs with
  | nil => simp [splitOnChar]
  | cons c cs ih =>
    unfold splitOnChar
    split
    · simp
    · split <;> simp

theorem mem_splitOnChar_not_sep (sep : Char) (cs : List Char) :
    ∀ p ∈ splitOnChar sep cs, sep ∉ p := by
  induction cs with
  | nil => simp [splitOnChar]
  | cons c cs ih =>
    unfold splitOnChar
    split
    · simp
    · rename_i p ps h
      rw [h] at ih
      split
      · intro q hq
        simp at hq
        rcases hq with rfl | rfl | hq
        · simp
        · exact ih _ (by simp)
        · exact ih _ (by simp [hq])
      · rename_i hne
        intro q hq
        simp at hq
        rcases hq with rfl | hq
        · have := ih p (by simp)
          simp only [List.mem_cons, not_or]
          exact ⟨fun h => hne h.symm, this⟩
        · exact ih _ (by simp [hq])

/-- concatenating the parts gives back the string without separators -/
theorem flatten_splitOnChar (sep : Char) (cs : List Char) :
    (splitOnChar sep cs).flatten = cs.filter (· ≠ sep) := by
  induction cs with
  | nil => simp [splitOnChar]
  | cons c cs ih =>
    unfold splitOnChar
    split
    · rename_i h; exact absurd h (splitOnChar_ne_nil sep cs)
    · rename_i p ps h
      rw [h] at ih
      split
      · rename_i hc
        simp [hc, List.filter_cons] at ih ⊢
        exact ih
      · rename_i hc
        simp [hc, List.filter_cons] at ih ⊢
        exact ih

/-! ### characters -/

theorem toUpper_ne_underscore {c : Char} (h : c ≠ '_') : c.toUpper ≠ '_' := by
  by_cases hl : c.isLower
  · intro he
    have h1 : c.toUpper.isUpper = c.isAlpha := Char.isUpper_toUpper_eq_isAlpha c
    have h2 : c.isAlpha = true := by simp [Char.isAlpha, hl]
    rw [he, h2] at h1
    exact absurd h1 (by decide)
  · rw [Char.toUpper_eq_of_not_isLower hl]; exact h

theorem isAlpha_toUpper (c : Char) : c.toUpper.isAlpha = c.isAlpha := Char.isAlpha_toUpper_eq_isAlpha c

theorem isDigit_toUpper (c : Char) : c.toUpper.isDigit = c.isDigit := by
  by_cases hl : c.isLower
  · have h1 : c.toUpper.isUpper = c.isAlpha := Char.isUpper_toUpper_eq_isAlpha c
    have h2 : c.isAlpha = true := by simp [Char.isAlpha, hl]
    rw [h2] at h1
    have : c.toUpper.isDigit = false := by
      simp only [Char.isUpper, Char.isDigit] at *
      simp only [Bool.and_eq_true, decide_eq_true_eq] at h1
      simp only [Bool.and_eq_false_imp, decide_eq_true_eq, decide_eq_false_iff_not]
      intro _
      have := h1.1
      simp [UInt32.le_iff_toNat_le] at *
      omega
    have hd : c.isDigit = false := by
      simp only [Char.isLower, Char.isDigit] at *
      simp only [Bool.and_eq_true, decide_eq_true_eq] at hl
      simp only [Bool.and_eq_false_imp, decide_eq_true_eq, decide_eq_false_iff_not]
      intro _
      have := hl.1
      simp [UInt32.le_iff_toNat_le] at *
      omega
    rw [this, hd]
  · rw [Char.toUpper_eq_of_not_isLower hl]

theorem isAlphanum_toUpper (c : Char) : c.toUpper.isAlphanum = c.isAlphanum := by
  simp [Char.isAlphanum, isAlpha_toUpper, isDigit_toUpper]

end StubGen

namespace StubGen

theorem isDigit_toLower (c : Char) : c.toLower.isDigit = c.isDigit := by
  by_cases hl : c.isUpper
  · have h1 : c.toLower.isLower = c.isAlpha := Char.isLower_toLower_eq_isAlpha c
    have h2 : c.isAlpha = true := by simp [Char.isAlpha, hl]
    rw [h2] at h1
    have : c.toLower.isDigit = false := by
      simp only [Char.isLower, Char.isDigit] at *
      simp only [Bool.and_eq_true, decide_eq_true_eq] at h1
      simp only [Bool.and_eq_false_imp, decide_eq_true_eq, decide_eq_false_iff_not]
      intro _
      have := h1.1
      simp [UInt32.le_iff_toNat_le] at *
      omega
    have hd : c.isDigit = false := by
      simp only [Char.isUpper, Char.isDigit] at *
      simp only [Bool.and_eq_true, decide_eq_true_eq] at hl
      simp only [Bool.and_eq_false_imp, decide_eq_true_eq, decide_eq_false_iff_not]
      intro _
      have := hl.1
      simp [UInt32.le_iff_toNat_le] at *
      omega
    rw [this, hd]
  · rw [Char.toLower_eq_of_not_isUpper hl]

theorem isAlphanum_toLower (c : Char) : c.toLower.isAlphanum = c.isAlphanum := by
  simp [Char.isAlphanum, isDigit_toLower]

/-! ### `capJoin` -/

theorem capitalize_no_underscore {p : List Char} (h : '_' ∉ p) : '_' ∉ capitalize p := by
  cases p with
  | nil => simp [capitalize]
  | cons c cs =>
    simp only [capitalize, List.mem_cons, not_or] at h ⊢
    exact ⟨fun e => toUpper_ne_underscore (fun e' => h.1 e'.symm) e.symm, h.2⟩

theorem capJoin_no_underscore {ps : List (List Char)} (h : ∀ p ∈ ps, '_' ∉ p) : '_' ∉ capJoin ps := by
  induction ps with
  | nil => simp [capJoin]
  | cons p ps ih =>
    simp only [capJoin, List.mem_append, not_or]
    refine ⟨?_, ih (fun q hq => h q (by simp [hq]))⟩
    split
    · simp
    · exact capitalize_no_underscore (h p (by simp))

theorem map_toLower_capitalize (p : List Char) : (capitalize p).map Char.toLower = p.map Char.toLower := by
  cases p <;> simp [capitalize]

theorem map_toLower_capJoin (ps : List (List Char)) :
    (capJoin ps).map Char.toLower = ps.flatten.map Char.toLower := by
  induction ps with
  | nil => simp [capJoin]
  | cons p ps ih =>
    simp only [capJoin, List.map_append, ih, List.flatten_cons]
    congr 1
    split
    · rename_i h; simp at h; simp [h]
    · exact map_toLower_capitalize p

/-! ### stripping the underscores at both ends -/

theorem leadingUnderscores_take (cs : List Char) : ∀ x ∈ cs.take (leadingUnderscores cs), x = '_' := by
  induction cs with
  | nil => simp [leadingUnderscores]
  | cons c cs ih =>
    unfold leadingUnderscores
    split
    · rename_i h
      intro x hx
      simp [List.take_succ_cons] at hx
      rcases hx with rfl | hx
      · exact h
      · exact ih x hx
    · simp

theorem filter_drop_of_take {α : Type} (p : α → Bool) (l : List α) (n : Nat)
    (h : ∀ x ∈ l.take n, p x = false) : (l.drop n).filter p = l.filter p := by
  conv => rhs; rw [← List.take_append_drop n l]
  rw [List.filter_append]
  have : (l.take n).filter p = [] := by
    rw [List.filter_eq_nil_iff]; intro x hx; simp [h x hx]
  simp [this]

theorem filter_take_of_reverse {α : Type} (p : α → Bool) (l : List α) (e : Nat)
    (h : ∀ x ∈ l.reverse.take e, p x = false) : (l.take (l.length - e)).filter p = l.filter p := by
  have h1 : l.take (l.length - e) = (l.reverse.drop e).reverse := by
    rw [List.drop_reverse, List.reverse_reverse]
  rw [h1, List.filter_reverse, filter_drop_of_take p l.reverse e h, List.filter_reverse, List.reverse_reverse]

/-- the slice `name[start:-end]` only removes underscores -/
theorem filter_cleaned (cs : List Char) :
    ((cs.take (cs.length - leadingUnderscores cs.reverse)).drop (leadingUnderscores cs)).filter (· ≠ '_')
      = cs.filter (· ≠ '_') := by
  rw [filter_drop_of_take]
  · apply filter_take_of_reverse
    intro x hx
    simp [leadingUnderscores_take cs.reverse x hx]
  · intro x hx
    rw [List.take_take] at hx
    have hx' : x ∈ cs.take (leadingUnderscores cs) := by
      have : cs.take (min (leadingUnderscores cs) (cs.length - leadingUnderscores cs.reverse))
           = (cs.take (leadingUnderscores cs)).take (min (leadingUnderscores cs) (cs.length - leadingUnderscores cs.reverse)) := by
        rw [List.take_take]; congr 1; omega
      rw [this] at hx
      exact List.mem_of_mem_take hx
    simp [leadingUnderscores_take cs x hx']

/-! ### `convertChars` -/

/-- the conversion keeps exactly the non-underscore characters, in order, up to ASCII case -/
theorem convertChars_letters (cs : List Char) (b : Bool) (h : cs ≠ ['_']) :
    (convertChars cs b).map Char.toLower = (cs.filter (· ≠ '_')).map Char.toLower := by
  unfold convertChars
  simp only [h, if_false]
  rw [← filter_cleaned cs, ← flatten_splitOnChar]
  generalize splitOnChar '_' _ = parts
  cases b with
  | true => simp [map_toLower_capJoin]
  | false =>
    cases parts with
    | nil => simp
    | cons p ps => simp [map_toLower_capJoin]

theorem convertChars_no_underscore (cs : List Char) (b : Bool) (h : cs ≠ ['_']) :
    '_' ∉ convertChars cs b := by
  unfold convertChars
  simp only [h, if_false]
  have hp := mem_splitOnChar_not_sep '_'
    ((cs.take (cs.length - leadingUnderscores cs.reverse)).drop (leadingUnderscores cs))
  revert hp
  generalize splitOnChar '_' _ = parts
  intro hp
  cases b with
  | true => simpa using capJoin_no_underscore hp
  | false =>
    cases parts with
    | nil => simp
    | cons p ps =>
      simp only [Bool.false_eq_true, if_false, List.mem_append, not_or]
      exact ⟨hp p (by simp), capJoin_no_underscore (fun q hq => hp q (by simp [hq]))⟩

end StubGen

namespace StubGen

theorem filter_lstrip (cs : List Char) : (lstripChar '_' cs).filter (· ≠ '_') = cs.filter (· ≠ '_') := by
  induction cs with
  | nil => simp [lstripChar]
  | cons c cs ih =>
    unfold lstripChar
    split
    · rename_i h; simp only [h, ne_eq, not_true_eq_false, decide_false, Bool.false_eq_true,
        not_false_eq_true, List.filter_cons_of_neg]; exact ih
    · rfl

theorem convertChars_ident (cs : List Char) (b : Bool) (h : Convertible cs = true) :
    isIdent (convertChars cs b) = true := by
  unfold Convertible at h
  simp only [Bool.and_eq_true] at h
  obtain ⟨hall, hhead⟩ := h
  -- the first non-underscore character `a` is a letter
  split at hhead
  · simp at hhead
  · rename_i a t hstrip
    have ha : a ≠ '_' := by intro e; rw [e] at hhead; exact absurd hhead (by decide)
    have hne : cs ≠ ['_'] := by
      intro e; rw [e] at hstrip; simp [lstripChar] at hstrip
    have hF : cs.filter (· ≠ '_') = a :: t.filter (· ≠ '_') := by
      rw [← filter_lstrip, hstrip]; simp [ha]
    have hL := convertChars_letters cs b hne
    rw [hF] at hL
    -- every character of the result is alphanumeric
    have hchars : ∀ y ∈ convertChars cs b, isIdentChar y = true := by
      intro y hy
      have : y.toLower ∈ (convertChars cs b).map Char.toLower := List.mem_map_of_mem hy
      rw [hL, ← hF] at this
      obtain ⟨c, hc, hcy⟩ := List.mem_map.mp this
      simp only [List.mem_filter, ne_eq, decide_not, Bool.not_eq_eq_eq_not, Bool.not_true,
        decide_eq_false_iff_not] at hc
      have hci : isIdentChar c = true := List.all_eq_true.mp hall c hc.1
      have hca : c.isAlphanum = true := by
        simp only [isIdentChar, Bool.or_eq_true, beq_iff_eq] at hci
        rcases hci with h1 | h1
        · exact h1
        · exact absurd h1 hc.2
      have : y.isAlphanum = true := by
        rw [← isAlphanum_toLower y, ← hcy, isAlphanum_toLower c]; exact hca
      simp [isIdentChar, this]
    cases hres : convertChars cs b with
    | nil => rw [hres] at hL; simp at hL
    | cons x xs =>
      rw [hres] at hL hchars
      simp only [List.map_cons, List.cons.injEq] at hL
      have hx : x.isAlpha = true := by
        rw [← Char.isAlpha_toLower_eq_isAlpha x, hL.1, Char.isAlpha_toLower_eq_isAlpha a]; exact hhead
      simp only [isIdent, isIdentStart, hx, Bool.true_or, Bool.true_and, List.all_eq_true]
      intro y hy
      exact hchars y (by simp [hy])

/-! ### idempotence -/

theorem splitOnChar_of_not_mem (sep : Char) (cs : List Char) (h : sep ∉ cs) : splitOnChar sep cs = [cs] := by
  induction cs with
  | nil => simp [splitOnChar]
  | cons c cs ih =>
    simp only [List.mem_cons, not_or] at h
    unfold splitOnChar
    rw [ih h.2]
    have : ¬ c = sep := fun e => h.1 (Eq.symm e)
    simp [this]

theorem leadingUnderscores_of_not_mem (cs : List Char) (h : '_' ∉ cs) : leadingUnderscores cs = 0 := by
  cases cs with
  | nil => rfl
  | cons c cs =>
    simp only [List.mem_cons, not_or] at h
    unfold leadingUnderscores
    have : ¬ c = '_' := fun e => h.1 (Eq.symm e)
    simp [this]

theorem capitalize_capitalize (p : List Char) : capitalize (capitalize p) = capitalize p := by
  cases p <;> simp [capitalize]

theorem capitalize_capJoin (ps : List (List Char)) : capitalize (capJoin ps) = capJoin ps := by
  induction ps with
  | nil => rfl
  | cons p ps ih =>
    simp only [capJoin]
    split
    · simpa using ih
    · rename_i hp
      cases p with
      | nil => simp at hp
      | cons c cs => simp [capitalize]

theorem convertChars_idem (cs : List Char) (b : Bool) :
    convertChars (convertChars cs b) b = convertChars cs b := by
  by_cases h : cs = ['_']
  · subst h; simp [convertChars]
  · have hno := convertChars_no_underscore cs b h
    generalize hr : convertChars cs b = r at hno
    have hr1 : r ≠ ['_'] := by intro e; rw [e] at hno; simp at hno
    have hrev : '_' ∉ r.reverse := by simpa using hno
    conv => lhs; unfold convertChars
    simp only [hr1, if_false, leadingUnderscores_of_not_mem r hno, leadingUnderscores_of_not_mem _ hrev,
      Nat.sub_zero, List.take_length, List.drop_zero, splitOnChar_of_not_mem '_' r hno]
    cases b with
    | false => simp [capJoin]
    | true =>
      simp only [if_true, capJoin, List.append_nil]
      split
      · rename_i he; simp at he; simp [he]
      · -- r is itself a capJoin, hence already capitalised
        rw [← hr]
        unfold convertChars
        simp only [h, if_false, if_true]
        exact capitalize_capJoin _

end StubGen
