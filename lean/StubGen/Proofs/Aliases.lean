/-
Helper lemmas about the alias collection (`Model/Aliases.lean`).
-/
import StubGen.Model.Aliases

namespace StubGen

/-- the candidate set of a short name (`aliases[name]`, or the empty set) -/
def lookupA (t : AliasTable) (n : String) : List String := (assocGet? t n).getD []

theorem assocGet?_append_new {t : AliasTable} {n : String} {v : List String} (h : t.any (·.1 == n) = false) (k : String) :
    assocGet? (t ++ [(n, v)]) k = if n == k then (match assocGet? t k with | some x => some x | none => some v) else assocGet? t k := by
  induction t with
  | nil => simp [assocGet?]
  | cons kv rest ih =>
    obtain ⟨a, b⟩ := kv
    simp only [List.any_cons, Bool.or_eq_false_iff] at h
    simp only [List.cons_append, assocGet?]
    by_cases hak : (a == k) = true
    · have : (n == k) = false := by
        have h1 : a = k := by simpa using hak
        have h2 : ¬ a = n := by simpa using h.1
        simp only [beq_eq_false_iff_ne, ne_eq]
        intro h3; exact h2 (h1.trans h3.symm)
      simp [hak, this]
    · simp only [hak, Bool.false_eq_true, if_false]
      rw [ih h.2]

theorem any_false_assocGet? {t : AliasTable} {n : String} (h : t.any (·.1 == n) = false) : assocGet? t n = none := by
  induction t with
  | nil => rfl
  | cons kv rest ih =>
    obtain ⟨a, b⟩ := kv
    simp only [List.any_cons, Bool.or_eq_false_iff] at h
    simp only [assocGet?, h.1, Bool.false_eq_true, if_false]
    exact ih h.2

theorem assocGet?_map_update (t : AliasTable) (n fn k : String) :
    assocGet? (t.map fun kv => if kv.1 == n then (kv.1, insertSet fn kv.2) else kv) k
      = (assocGet? t k).map fun v => if k == n then insertSet fn v else v := by
  induction t with
  | nil => rfl
  | cons kv rest ih =>
    obtain ⟨a, b⟩ := kv
    simp only [List.map_cons, assocGet?]
    by_cases han : (a == n) = true
    · simp only [han, if_true]
      by_cases hak : (a == k) = true
      · have h1 : a = k := by simpa using hak
        have h2 : a = n := by simpa using han
        have : (k == n) = true := by simp [← h1, h2]
        simp [hak, this]
      · simp only [hak, Bool.false_eq_true, if_false]
        exact ih
    · simp only [han, Bool.false_eq_true, if_false]
      by_cases hak : (a == k) = true
      · have h1 : a = k := by simpa using hak
        have : (k == n) = false := by
          simp only [beq_eq_false_iff_ne, ne_eq]
          intro h3; exact han (by simp [h1, h3])
        simp [hak, this]
      · simp only [hak, Bool.false_eq_true, if_false]
        exact ih

theorem al_mem_insertSet {a x : String} {l : List String} : x ∈ insertSet a l ↔ x ∈ l ∨ x = a := by
  unfold insertSet
  by_cases h : l.contains a = true
  · simp only [h, if_true]
    constructor
    · exact Or.inl
    · rintro (h1 | h1)
      · exact h1
      · subst h1; simpa using h
  · have h' : ¬ a ∈ l := by simpa using h
    simp [h']

theorem mem_lookupA_aliasAdd (t : AliasTable) (n fn n' fn' : String) :
    fn' ∈ lookupA (aliasAdd t n fn) n' ↔ fn' ∈ lookupA t n' ∨ (n' = n ∧ fn' = fn) := by
  unfold aliasAdd lookupA
  by_cases h : t.any (·.1 == n) = true
  · simp only [h, if_true]
    rw [assocGet?_map_update]
    cases hg : assocGet? t n' with
    | none =>
      simp only [Option.map_none, Option.getD_none, List.not_mem_nil, false_or]
      constructor
      · intro h1; exact absurd h1 (by simp)
      · rintro ⟨h1, _⟩
        subst h1
        -- the key is present, so the lookup cannot be none
        exfalso
        have : assocGet? t n' ≠ none := by
          clear hg
          induction t with
          | nil => simp at h
          | cons kv rest ih =>
            obtain ⟨a, b⟩ := kv
            simp only [assocGet?]
            by_cases hak : (a == n') = true
            · simp [hak]
            · simp only [hak, Bool.false_eq_true, if_false]
              apply ih
              simpa [hak] using h
        exact this hg
    | some v =>
      simp only [Option.map_some, Option.getD_some]
      by_cases hk : (n' == n) = true
      · have : n' = n := by simpa using hk
        subst this
        simp [al_mem_insertSet]
      · have hne : ¬ n' = n := by simpa using hk
        simp [hk, hne]
  · have h' : t.any (·.1 == n) = false := by
      cases hh : t.any (·.1 == n) with
      | true => exact absurd hh h
      | false => rfl
    simp only [h', Bool.false_eq_true, if_false]
    rw [assocGet?_append_new h']
    by_cases hk : (n == n') = true
    · have e : n = n' := by simpa using hk
      subst e
      simp only [beq_self_eq_true, if_true, any_false_assocGet? h', Option.getD_some, Option.getD_none,
        List.mem_singleton, List.not_mem_nil, false_or, true_and]
    · have hne : ¬ n' = n := by
        intro e; exact hk (by simp [e])
      simp [hk, hne]

theorem mem_getAliasesFrom (pkg : String) (fs : List AliasFact) (t : AliasTable) (n fn : String) :
    fn ∈ lookupA (getAliasesFrom pkg t fs) n ↔ fn ∈ lookupA t n ∨ ∃ f ∈ fs, aliasStep pkg f = .add n fn := by
  induction fs generalizing t with
  | nil => simp [getAliasesFrom]
  | cons f rest ih =>
    unfold getAliasesFrom
    cases hs : aliasStep pkg f with
    | skip =>
      simp only
      rw [ih]
      simp [hs]
    | add n1 fn1 =>
      simp only
      rw [ih, mem_lookupA_aliasAdd]
      simp only [List.mem_cons, exists_eq_or_imp, hs, AliasStep.add.injEq]
      constructor
      · rintro ((h | ⟨h1, h2⟩) | h)
        · exact Or.inl h
        · exact Or.inr (Or.inl ⟨h1.symm, h2.symm⟩)
        · exact Or.inr (Or.inr h)
      · rintro (h | ⟨h1, h2⟩ | h)
        · exact Or.inl (Or.inl h)
        · exact Or.inl (Or.inr ⟨h1.symm, h2.symm⟩)
        · exact Or.inr h

end StubGen
