/-
Proof machinery for C13a / C14: the docstring-annotation → API-type mapping (`annToType`) against a
readable specification, the griffe node lookup as an iterated child lookup, and readable
characterisations of the documentation queries.  All names carry the prefix `v13_`.
-/
import StubGen.Proofs.Doc

namespace StubGen

/-! ## Part 1 — `annToType` -/

/-- the names with a fixed meaning (compared with the CANONICAL PATH of the name) -/
def v13_nameTable : List (String × AType) :=
  [("typing.Any", .named "Any" "typing.Any"), ("int", .named "int" "builtins.int"), ("bool", .named "bool" "builtins.bool"),
   ("float", .named "float" "builtins.float"), ("str", .named "str" "builtins.str"),
   ("list", .list []), ("tuple", .tuple []), ("set", .set [])]

/-- the type of `p[types]` (`p` the canonical path, `n` the canonical name of the subscripted name) -/
def v13_subscriptType (p n : String) (types : List AType) : AType :=
  if p ∈ ["list", "collections.abc.Sequence", "collections.abc.Iterator"] then .list types
  else if p = "tuple" then .tuple types
  else if p = "set" then .set types
  else if p ∈ ["collections.abc.Callable", "typing.Callable"] then
    match types with
    | [] => .unknown
    | .list ps :: rest => .callable ps (rest.headD anyType)
    | t :: rest => .callable [t] (rest.headD anyType)
  else if p ∈ ["dict", "collections.abc.Mapping", "typing.Mapping"] then
    .dict (types.headD anyType) (types.getD 1 anyType)
  else if p = "typing.Optional" then .union (types ++ [noneType])
  else .namedSeq n p types

/-- **the specification** of `_griffe_annotation_to_api_type`: a docstring annotation's API type;
    `none` = "no type".  Elements without a type are dropped from every container. -/
def v13_docType : GExpr → Option AType
  | .name p n => some ((v13_nameTable.lookup p).getD (.named n p))
  | .subscript p n (.tuple es) => some (v13_subscriptType p n (es.filterMap v13_docType))
  | .subscript p n slice => some (v13_subscriptType p n (v13_docType slice).toList)
  | .list es => some (.list (es.filterMap v13_docType))
  | .boolOp vs => some (.union (vs.filterMap v13_docType))
  | .binOp ops => some (.union (ops.filterMap v13_docType))
  | .tuple es =>
    let elems := (es.filter (fun e => !isOptionalMarker e)).filterMap v13_docType
    some (if es.any isOptionalMarker then .union (elems ++ [noneType]) else .tuple elems)
  | .str _ cut none => if cut = "None" then some noneType else none
  | .str _ _ (some e) => v13_docType e
  | .other => some .unknown

/-- the element types of a subscript's slice, in terms of the model function -/
def v13_sliceTypes : GExpr → List AType
  | .tuple es => annsToTypes es
  | s => (annToType s).toList

theorem v13_annToType_name (p n : String) :
    annToType (.name p n) = some ((v13_nameTable.lookup p).getD (.named n p)) := by
  rw [annToType]
  simp only [v13_nameTable, List.lookup, anyType]
  by_cases h1 : (p == "typing.Any") = true
  · simp only [h1, if_true]; rfl
  by_cases h2 : (p == "int") = true
  · simp only [h1, h2, if_true, Bool.false_eq_true, if_false]; rfl
  by_cases h3 : (p == "bool") = true
  · simp only [h1, h2, h3, if_true, Bool.false_eq_true, if_false]; rfl
  by_cases h4 : (p == "float") = true
  · simp only [h1, h2, h3, h4, if_true, Bool.false_eq_true, if_false]; rfl
  by_cases h5 : (p == "str") = true
  · simp only [h1, h2, h3, h4, h5, if_true, Bool.false_eq_true, if_false]; rfl
  by_cases h6 : (p == "list") = true
  · simp only [h1, h2, h3, h4, h5, h6, if_true, Bool.false_eq_true, if_false]; rfl
  by_cases h7 : (p == "tuple") = true
  · simp only [h1, h2, h3, h4, h5, h6, h7, if_true, Bool.false_eq_true, if_false]; rfl
  by_cases h8 : (p == "set") = true
  · simp only [h1, h2, h3, h4, h5, h6, h7, h8, if_true, Bool.false_eq_true, if_false]; rfl
  simp only [h1, h2, h3, h4, h5, h6, h7, h8, Bool.false_eq_true, if_false]; rfl

theorem v13_optList (o : Option AType) : (match o with | some t => [t] | none => []) = o.toList := by
  cases o <;> rfl

theorem v13_chain (p n : String) (types : List AType) :
    (if (p == "list" || p == "collections.abc.Sequence" || p == "collections.abc.Iterator") = true then
      some (AType.list types)
    else if (p == "tuple") = true then some (AType.tuple types)
    else if (p == "set") = true then some (AType.set types)
    else if (p == "collections.abc.Callable" || p == "typing.Callable") = true then
      have paramType := types.headD anyType;
      if types.isEmpty = true then some AType.unknown
      else
        have params := match paramType with
          | AType.list ts => ts
          | t => [t];
        some (AType.callable params (types.getD 1 anyType))
    else if (p == "dict" || p == "collections.abc.Mapping" || p == "typing.Mapping") = true then
      some ((types.headD anyType).dict (types.getD 1 anyType))
    else if (p == "typing.Optional") = true then some (AType.union (types ++ [noneType]))
    else some (AType.namedSeq n p types)) = some (v13_subscriptType p n types) := by
  unfold v13_subscriptType
  simp only [Bool.or_eq_true, beq_iff_eq, List.mem_cons, List.not_mem_nil, or_false, or_assoc]
  split
  · rfl
  split
  · rfl
  split
  · rfl
  split
  · cases types with
    | nil => rfl
    | cons t ts => cases t <;> cases ts <;> rfl
  split
  · rfl
  split <;> rfl

theorem v13_annToType_subscript (p n : String) (slice : GExpr) :
    annToType (.subscript p n slice) = some (v13_subscriptType p n (v13_sliceTypes slice)) := by
  cases slice with
  | tuple es => rw [annToType.eq_2]; exact v13_chain p n _
  | _ =>
    rw [annToType.eq_3 _ _ _ (by intro es h; cases h)]
    simp only [v13_sliceTypes]
    generalize annToType _ = o
    cases o <;> exact v13_chain p n _


theorem v13_annsToTypes_eq (es : List GExpr) : annsToTypes es = es.filterMap annToType := by
  induction es with
  | nil => rfl
  | cons e es ih => rw [annsToTypes, ih, List.filterMap_cons]; cases annToType e <;> rfl

theorem v13_annsToTypesSkipOptional_eq (es : List GExpr) :
    annsToTypesSkipOptional es = (es.filter (fun e => !isOptionalMarker e)).filterMap annToType := by
  induction es with
  | nil => rfl
  | cons e es ih =>
    rw [annsToTypesSkipOptional, ih, List.filter_cons]
    cases hm : isOptionalMarker e
    · simp only [Bool.false_eq_true, if_false, Bool.not_false, if_true, List.filterMap_cons]
      cases annToType e <;> rfl
    · simp only [if_true, Bool.not_true, Bool.false_eq_true, if_false]

theorem v13_annToType_tuple (es : List GExpr) :
    annToType (.tuple es) =
      some (if es.any isOptionalMarker
        then .union ((es.filter (fun e => !isOptionalMarker e)).filterMap annToType ++ [noneType])
        else .tuple ((es.filter (fun e => !isOptionalMarker e)).filterMap annToType)) := by
  rw [annToType, v13_annsToTypesSkipOptional_eq]
  split <;> rfl

theorem v13_filterMap_congr {α β : Type} {f g : α → Option β} {l : List α} (h : ∀ x ∈ l, f x = g x) :
    l.filterMap f = l.filterMap g := by
  induction l with
  | nil => rfl
  | cons a l ih =>
    rw [List.filterMap_cons, List.filterMap_cons, h a (by simp), ih (fun x hx => h x (by simp [hx]))]

theorem v13_docType_eq_lt (k : Nat) : ∀ e : GExpr, sizeOf e < k → annToType e = v13_docType e := by
  induction k with
  | zero => intro e h; exact absurd h (Nat.not_lt_zero _)
  | succ k ih =>
    intro e h
    have hl : ∀ es : List GExpr, sizeOf es < k → es.filterMap annToType = es.filterMap v13_docType := by
      intro es hes
      apply v13_filterMap_congr
      intro x hx
      exact ih x (Nat.lt_trans (List.sizeOf_lt_of_mem hx) hes)
    have hl' : ∀ es : List GExpr, sizeOf es < k →
        (es.filter (fun e => !isOptionalMarker e)).filterMap annToType
          = (es.filter (fun e => !isOptionalMarker e)).filterMap v13_docType := by
      intro es hes
      apply v13_filterMap_congr
      intro x hx
      exact ih x (Nat.lt_trans (List.sizeOf_lt_of_mem (List.mem_filter.mp hx).1) hes)
    cases e with
    | name p n => rw [v13_annToType_name, v13_docType]
    | subscript p n slice =>
      rw [v13_annToType_subscript]
      cases slice with
      | tuple es =>
        rw [v13_docType, v13_sliceTypes, v13_annsToTypes_eq, hl es (by simp at h; omega)]
      | _ =>
        rw [v13_docType, v13_sliceTypes, ih _ (by simp at h ⊢; omega)]
        all_goals (intro es he; cases he)
    | tuple es =>
      rw [v13_annToType_tuple, v13_docType, hl' es (by simp at h; omega)]
    | list es => rw [annToType, v13_docType, v13_annsToTypes_eq, hl es (by simp at h; omega)]
    | boolOp es => rw [annToType, v13_docType, v13_annsToTypes_eq, hl es (by simp at h; omega)]
    | binOp es => rw [annToType, v13_docType, v13_annsToTypes_eq, hl es (by simp at h; omega)]
    | str raw cut parsed =>
      cases parsed with
      | none => rw [annToType, v13_docType]; simp only [beq_iff_eq]
      | some e' => rw [annToType, v13_docType]; exact ih e' (by simp at h ⊢; omega)
    | other => rw [annToType, v13_docType]

theorem v13_docType_eq (e : GExpr) : annToType e = v13_docType e :=
  v13_docType_eq_lt (sizeOf e + 1) e (Nat.lt_succ_self _)


/-! ## Part 2 — which annotations have no type -/

/-- towers of string annotations that end in a string griffe could not parse and that is not `None` -/
inductive v13_NoType : GExpr → Prop
  | unparsable (raw cut : String) : cut ≠ "None" → v13_NoType (.str raw cut none)
  | wrapped (raw cut : String) (e : GExpr) : v13_NoType e → v13_NoType (.str raw cut (some e))

theorem v13_none_of_noType {e : GExpr} (h : v13_NoType e) : annToType e = none := by
  induction h with
  | unparsable raw cut hc =>
    rw [annToType]
    have : (cut == "None") = false := by simpa using hc
    simp only [this, Bool.false_eq_true, if_false]
  | wrapped raw cut e _ ih => rw [annToType]; exact ih

theorem v13_noType_of_none_lt (k : Nat) : ∀ e : GExpr, sizeOf e < k → annToType e = none → v13_NoType e := by
  induction k with
  | zero => intro e h; exact absurd h (Nat.not_lt_zero _)
  | succ k ih =>
    intro e h hn
    cases e with
    | name p n => rw [v13_annToType_name] at hn; cases hn
    | subscript p n slice => rw [v13_annToType_subscript] at hn; cases hn
    | tuple es => rw [v13_annToType_tuple] at hn; cases hn
    | list es => rw [annToType] at hn; cases hn
    | boolOp es => rw [annToType] at hn; cases hn
    | binOp es => rw [annToType] at hn; cases hn
    | other => rw [annToType] at hn; cases hn
    | str raw cut parsed =>
      cases parsed with
      | none =>
        rw [annToType] at hn
        refine .unparsable raw cut ?_
        intro hc
        simp [hc] at hn
      | some e' =>
        rw [annToType] at hn
        exact .wrapped raw cut e' (ih e' (by simp at h ⊢; omega) hn)

theorem v13_none_iff (e : GExpr) : annToType e = none ↔ v13_NoType e :=
  ⟨v13_noType_of_none_lt (sizeOf e + 1) e (Nat.lt_succ_self _), v13_none_of_noType⟩

/-! ## Part 3 — node lookup -/

theorem v13_findChild_eq (name : String) (l : List GNode) :
    findChild name l = l.find? (fun c => c.name == name) := by
  induction l with
  | nil => rfl
  | cons n ns ih =>
    rw [findChild, List.find?_cons, ih]
    cases n.name == name <;> rfl

/-- the members of a node in the order `_get_griffe_node` searches them -/
def v13_members (node : GNode) : List GNode :=
  node.modules ++ node.classes ++ node.functions ++ node.attributes

/-- the member a name denotes: the first one of that name among modules, classes, functions, attributes -/
def v13_child (node : GNode) (part : String) : Option GNode :=
  (v13_members node).find? (fun c => c.name == part)

/-- the same as a relation with the priority spelled out -/
inductive v13_Child (node : GNode) (part : String) (c : GNode) : Prop
  | inModules (h : findChild part node.modules = some c)
  | inClasses (h0 : findChild part node.modules = none) (h : findChild part node.classes = some c)
  | inFunctions (h0 : findChild part node.modules = none) (h1 : findChild part node.classes = none)
      (h : findChild part node.functions = some c)
  | inAttributes (h0 : findChild part node.modules = none) (h1 : findChild part node.classes = none)
      (h2 : findChild part node.functions = none) (h : findChild part node.attributes = some c)

theorem v13_child_eq (node : GNode) (part : String) :
    v13_child node part =
      match findChild part node.modules with
      | some c => some c
      | none => match findChild part node.classes with
        | some c => some c
        | none => match findChild part node.functions with
          | some c => some c
          | none => findChild part node.attributes := by
  simp only [v13_child, v13_members, v13_findChild_eq, List.find?_append]
  cases List.find? (fun c => c.name == part) node.modules <;>
    cases List.find? (fun c => c.name == part) node.classes <;>
    cases List.find? (fun c => c.name == part) node.functions <;> rfl

theorem v13_Child_iff (node : GNode) (part : String) (c : GNode) :
    v13_Child node part c ↔ v13_child node part = some c := by
  rw [v13_child_eq]
  constructor
  · intro h
    cases h with
    | inModules h => simp only [h]
    | inClasses h0 h => simp only [h0, h]
    | inFunctions h0 h1 h => simp only [h0, h1, h]
    | inAttributes h0 h1 h2 h => simp only [h0, h1, h2, h]
  · intro h
    cases h0 : findChild part node.modules with
    | some c0 => rw [h0] at h; cases h; exact .inModules h0
    | none =>
      cases h1 : findChild part node.classes with
      | some c1 => rw [h0, h1] at h; cases h; exact .inClasses h0 h1
      | none =>
        cases h2 : findChild part node.functions with
        | some c2 => rw [h0, h1, h2] at h; cases h; exact .inFunctions h0 h1 h2
        | none => rw [h0, h1, h2] at h; exact .inAttributes h0 h1 h2 h

/-- one non-first loop iteration of `_get_griffe_node` -/
def v13_step (node : GNode) (part : String) : Except PyErr (Option GNode) :=
  match v13_child node part with
  | some c => .ok (some c)
  | none => if part = "__init__" ∧ node.isClass = true then .ok none else .error .valueError

theorem v13_griffeStep_false (node : GNode) (part : String) :
    griffeStep node part false = v13_step node part := by
  unfold griffeStep v13_step
  rw [v13_child_eq]
  simp only [Bool.false_and, Bool.false_eq_true, if_false]
  cases findChild part node.modules with
  | some c => rfl
  | none =>
    cases findChild part node.classes with
    | some c => rfl
    | none =>
      cases findChild part node.functions with
      | some c => rfl
      | none =>
        cases findChild part node.attributes with
        | some c => rfl
        | none =>
          simp only [Bool.and_eq_true, beq_iff_eq]

theorem v13_griffeStep_true (node : GNode) (part : String) :
    griffeStep node part true = if node.name = part then .ok (some node) else v13_step node part := by
  rw [← v13_griffeStep_false]
  unfold griffeStep
  simp only [Bool.true_and, beq_iff_eq, Bool.false_and, Bool.false_eq_true, if_false]

/-- the iterated child lookup: every part is one step down -/
def v13_walk : GNode → List String → Except PyErr (Option GNode)
  | node, [] => .ok (some node)
  | node, p :: ps =>
    match v13_step node p with
    | .error e => .error e
    | .ok none => .ok none
    | .ok (some c) => v13_walk c ps

theorem v13_griffeWalk_eq (node : GNode) (ps : List String) : griffeWalk node ps = v13_walk node ps := by
  induction ps generalizing node with
  | nil => rfl
  | cons p ps ih =>
    rw [griffeWalk, v13_walk, v13_griffeStep_false]
    cases v13_step node p with
    | error e => rfl
    | ok r => cases r with
      | none => rfl
      | some c => exact ih c

/-- the parts of the qualified name that are walked: the first one is dropped when it is the root's name -/
def v13_parts (root : GNode) (qname : String) : List String :=
  match splitDot qname with
  | [] => []
  | p :: ps => if root.name = p then ps else p :: ps

theorem v13_getGriffeNode_eq (root : GNode) (qname : String) :
    getGriffeNode root qname = v13_walk root (v13_parts root qname) := by
  unfold getGriffeNode v13_parts
  cases splitDot qname with
  | nil => rfl
  | cons p ps =>
    simp only [v13_griffeStep_true]
    by_cases h : root.name = p
    · simp only [h, if_true, v13_griffeWalk_eq]
    · simp only [h, if_false]
      rw [v13_walk]
      cases v13_step root p with
      | error e => rfl
      | ok r => cases r with
        | none => rfl
        | some c => exact v13_griffeWalk_eq c ps

/-- `m` is reached from `n` along the names `ps`, one child step per name -/
inductive v13_Path : GNode → List String → GNode → Prop
  | nil (n : GNode) : v13_Path n [] n
  | cons {n c m : GNode} {p : String} {ps : List String} :
      v13_Child n p c → v13_Path c ps m → v13_Path n (p :: ps) m

theorem v13_walk_some_iff (n : GNode) (ps : List String) (m : GNode) :
    v13_walk n ps = .ok (some m) ↔ v13_Path n ps m := by
  induction ps generalizing n with
  | nil =>
    rw [v13_walk]
    constructor
    · intro h; cases h; exact .nil _
    · intro h; cases h; rfl
  | cons p ps ih =>
    rw [v13_walk]
    constructor
    · intro h
      unfold v13_step at h
      cases hc : v13_child n p with
      | none =>
        rw [hc] at h
        dsimp only at h
        by_cases hi : p = "__init__" ∧ n.isClass = true
        · rw [if_pos hi] at h; cases h
        · rw [if_neg hi] at h; cases h
      | some c =>
        rw [hc] at h
        exact .cons ((v13_Child_iff n p c).2 hc) ((ih c).1 h)
    · intro h
      cases h with
      | cons hc hp =>
        unfold v13_step
        rw [(v13_Child_iff _ _ _).1 hc]
        exact (ih _).2 hp

theorem v13_Path_append {n c m : GNode} {ps qs : List String} (h1 : v13_Path n ps c) (h2 : v13_Path c qs m) :
    v13_Path n (ps ++ qs) m := by
  induction h1 with
  | nil n => exact h2
  | cons hc _ ih => exact .cons hc (ih h2)

/-- the early `return None`: the walk reaches a class through a prefix of the parts, the next part is
    `__init__`, and the class has no member of that name -/
theorem v13_walk_none_iff (n : GNode) (ps : List String) :
    v13_walk n ps = .ok none ↔
      ∃ pre post cls, ps = pre ++ "__init__" :: post ∧ v13_Path n pre cls ∧ cls.isClass = true
        ∧ v13_child cls "__init__" = none := by
  induction ps generalizing n with
  | nil =>
    rw [v13_walk]
    constructor
    · intro h; cases h
    · rintro ⟨pre, post, cls, h, _⟩
      cases pre <;> cases h
  | cons p ps ih =>
    rw [v13_walk]
    unfold v13_step
    cases hc : v13_child n p with
    | none =>
      dsimp only
      by_cases hi : p = "__init__" ∧ n.isClass = true
      · rw [if_pos hi]
        refine iff_of_true rfl ⟨[], ps, n, ?_, .nil n, hi.2, ?_⟩
        · rw [hi.1]; rfl
        · rw [← hi.1]; exact hc
      · rw [if_neg hi]
        refine iff_of_false (by intro h; cases h) ?_
        rintro ⟨pre, post, cls, h, hp, hcl, hno⟩
        cases pre with
        | nil =>
          cases hp
          simp only [List.nil_append, List.cons.injEq] at h
          exact hi ⟨h.1, hcl⟩
        | cons q pre =>
          simp only [List.cons_append, List.cons.injEq] at h
          cases hp with
          | cons hch _ =>
            rw [← h.1] at hch
            rw [(v13_Child_iff _ _ _).1 hch] at hc
            cases hc
    | some c =>
      dsimp only
      rw [ih c]
      constructor
      · rintro ⟨pre, post, cls, h, hp, hcl, hno⟩
        exact ⟨p :: pre, post, cls, by rw [h]; rfl, .cons ((v13_Child_iff _ _ _).2 hc) hp, hcl, hno⟩
      · rintro ⟨pre, post, cls, h, hp, hcl, hno⟩
        cases pre with
        | nil =>
          cases hp
          simp only [List.nil_append, List.cons.injEq] at h
          rw [h.1, hno] at hc
          cases hc
        | cons q pre =>
          simp only [List.cons_append, List.cons.injEq] at h
          cases hp with
          | cons hch hp' =>
            rw [← h.1] at hch
            rw [(v13_Child_iff _ _ _).1 hch] at hc
            cases hc
            exact ⟨pre, post, cls, h.2, hp', hcl, hno⟩

/-- the `ValueError`: some part names no member (and it is not `__init__` on a class) -/
theorem v13_walk_error_iff (n : GNode) (ps : List String) (e : PyErr) :
    v13_walk n ps = .error e ↔
      e = .valueError ∧ ∃ pre p post m, ps = pre ++ p :: post ∧ v13_Path n pre m
        ∧ v13_child m p = none ∧ ¬ (p = "__init__" ∧ m.isClass = true) := by
  induction ps generalizing n with
  | nil =>
    rw [v13_walk]
    constructor
    · intro h; cases h
    · rintro ⟨_, pre, p, post, m, h, _⟩
      cases pre <;> cases h
  | cons p ps ih =>
    rw [v13_walk]
    unfold v13_step
    cases hc : v13_child n p with
    | none =>
      dsimp only
      by_cases hi : p = "__init__" ∧ n.isClass = true
      · rw [if_pos hi]
        refine iff_of_false (by intro h; cases h) ?_
        rintro ⟨_, pre, q, post, m, h, hp, hno, hni⟩
        cases pre with
        | nil =>
          cases hp
          simp only [List.nil_append, List.cons.injEq] at h
          rw [← h.1] at hni
          exact hni hi
        | cons q' pre =>
          simp only [List.cons_append, List.cons.injEq] at h
          cases hp with
          | cons hch _ =>
            rw [← h.1] at hch
            rw [(v13_Child_iff _ _ _).1 hch] at hc
            cases hc
      · rw [if_neg hi]
        constructor
        · intro h
          cases h
          exact ⟨rfl, [], p, ps, n, rfl, .nil n, hc, hi⟩
        · rintro ⟨he, _⟩
          rw [he]
    | some c =>
      dsimp only
      rw [ih c]
      constructor
      · rintro ⟨he, pre, q, post, m, h, hp, hno, hni⟩
        exact ⟨he, p :: pre, q, post, m, by rw [h]; rfl, .cons ((v13_Child_iff _ _ _).2 hc) hp, hno, hni⟩
      · rintro ⟨he, pre, q, post, m, h, hp, hno, hni⟩
        cases pre with
        | nil =>
          cases hp
          simp only [List.nil_append, List.cons.injEq] at h
          rw [← h.1, hc] at hno
          cases hno
        | cons q' pre =>
          simp only [List.cons_append, List.cons.injEq] at h
          cases hp with
          | cons hch hp' =>
            rw [← h.1] at hch
            rw [(v13_Child_iff _ _ _).1 hch] at hc
            cases hc
            exact ⟨he, pre, q, post, m, h.2, hp', hno, hni⟩

/-- a child is a member of the node that carries the name, and no earlier member does -/
theorem v13_child_some_iff (node : GNode) (part : String) (c : GNode) :
    v13_child node part = some c ↔
      c.name = part ∧ ∃ pre post, v13_members node = pre ++ c :: post ∧ ∀ x ∈ pre, x.name ≠ part := by
  unfold v13_child
  rw [List.find?_eq_some_iff_append]
  simp only [beq_iff_eq, Bool.not_eq_true', beq_eq_false_iff_ne, ne_eq]

/-- a step goes strictly down the tree -/
theorem v13_child_sizeOf {node c : GNode} {part : String} (h : v13_child node part = some c) :
    sizeOf c < sizeOf node := by
  have hm : c ∈ v13_members node := List.mem_of_find?_eq_some h
  obtain ⟨name, isClass, doc, ms, cs, fs, as⟩ := node
  simp only [v13_members, List.mem_append] at hm
  simp only [GNode.mk.sizeOf_spec]
  rcases hm with ((hm | hm) | hm) | hm <;> have := List.sizeOf_lt_of_mem hm <;> omega


/-! ## Part 4 — the queries, readable -/

theorem v13_firstSection_eq {α : Type} (p : DocSection → Option α) (l : List DocSection) :
    firstSection? p l = l.findSome? p := by
  induction l with
  | nil => rfl
  | cons s ss ih =>
    rw [firstSection?, List.findSome?_cons, ih]
    cases p s <;> rfl

def v13_paramsOf : DocSection → Option (List DocParam)
  | .parameters ps => some ps
  | _ => none

def v13_attrsOf : DocSection → Option (List DocParam)
  | .attributes ps => some ps
  | _ => none

def v13_returnsOf : DocSection → Option (List DocReturn)
  | .returns rs => some rs
  | _ => none

def v13_textOf : DocSection → Option String
  | .text v => some v
  | _ => none

def v13_examplesOf : DocSection → List String
  | .examples ts => ts
  | _ => []

theorem v13_findSome_congr {α β : Type} {f g : α → Option β} {l : List α} (h : ∀ x, f x = g x) :
    l.findSome? f = l.findSome? g := by
  rw [show f = g from funext h]

/-- the entries of the FIRST parameters section (`attrs = false`) resp. the first attributes section
    of a docstring; `[]` when there is none -/
def v13_entrySection (attrs : Bool) (d : GDoc) : List DocParam :=
  (d.parsed.findSome? (if attrs then v13_attrsOf else v13_paramsOf)).getD []

/-- names are compared after stripping leading `*` on both sides -/
def v13_sameName (a b : String) : Bool := pyLstrip a "*" == pyLstrip b "*"

theorem v13_matching_eq (d : GDoc) (name : String) (attrs : Bool) :
    matching d name attrs = (v13_entrySection attrs d).filter (fun p => v13_sameName p.name name) := by
  unfold matching v13_entrySection
  rw [v13_firstSection_eq]
  rw [v13_findSome_congr (g := if attrs then v13_attrsOf else v13_paramsOf) (l := d.parsed)
    (by intro s; cases attrs <;> cases s <;> rfl)]
  dsimp only
  cases List.findSome? (if attrs = true then v13_attrsOf else v13_paramsOf) d.parsed with
  | none => rfl
  | some ps =>
    cases ps with
    | nil => rfl
    | cons p ps => rfl

/-- the returns entries of the first returns section -/
def v13_returns (d : GDoc) : List DocReturn := (d.parsed.findSome? v13_returnsOf).getD []

theorem v13_lastText_fold (l : List DocSection) (acc : String) :
    l.foldl (fun acc s => match s with | .text v => pyStrip v "\n" | _ => acc) acc
      = match (l.filterMap v13_textOf).getLast? with
        | some v => pyStrip v "\n"
        | none => acc := by
  induction l generalizing acc with
  | nil => rfl
  | cons s ss ih =>
    rw [List.foldl_cons, ih]
    cases s with
    | text v =>
      simp only [v13_textOf, List.filterMap_cons, List.getLast?_cons]
      cases (List.filterMap v13_textOf ss).getLast? <;> rfl
    | _ => rfl

/-- the LAST text section, stripped of surrounding newlines; `""` without a text section -/
def v13_description (d : GDoc) : String :=
  match (d.parsed.filterMap v13_textOf).getLast? with
  | some v => pyStrip v "\n"
  | none => ""

/-- the examples of ALL examples sections, in order, each stripped of surrounding newlines -/
def v13_examples (d : GDoc) : List String :=
  (d.parsed.flatMap v13_examplesOf).map (pyStrip · "\n")

theorem v13_lastText_eq (d : GDoc) : lastText d = v13_description d :=
  v13_lastText_fold d.parsed ""

theorem v13_allExamples_eq (d : GDoc) : allExamples d = v13_examples d := by
  unfold allExamples v13_examples
  rw [List.map_flatMap]
  congr 1
  funext s
  cases s <;> rfl

/-- the record made of one docstring entry -/
def v13_paramOf (e : DocParam) : ParamDoc :=
  { type := e.annotation.bind annToType, defaultValue := e.default.getD "",
    description := pyStrip e.description "\n" }

def v13_attrOf (e : DocParam) : AttrDoc :=
  { type := e.annotation.bind annToType, description := pyStrip e.description "\n" }

theorem v13_paramRecord_eq (m : List DocParam) :
    paramRecord m = match m.getLast? with
      | none => {}
      | some e => v13_paramOf e := by
  unfold paramRecord v13_paramOf
  cases m.getLast? with
  | none => rfl
  | some e => obtain ⟨n, ann, desc, dflt⟩ := e; cases ann <;> rfl

theorem v13_attrRecord_eq (m : List DocParam) :
    attrRecord m = match m.getLast? with
      | none => {}
      | some e => v13_attrOf e := by
  unfold attrRecord v13_attrOf
  cases m.getLast? with
  | none => rfl
  | some e => obtain ⟨n, ann, desc, dflt⟩ := e; cases ann <;> rfl

/-- is the function a constructor (`function_qname.split(".")[-1] == "__init__"`) -/
def v13_isCtorName (f : String) : Bool := lastD "" (splitDot f) == "__init__"

/-- the element whose docstring is consulted first for a parameter: the parent class (with `/`
    replaced by `.`) for a constructor with a given parent, else the function -/
def v13_paramDocQname (f c : String) : String :=
  if v13_isCtorName f = true ∧ c ≠ "" then replaceChar c '/' "." else f

/-- the entries of a docstring (none when there is no docstring) matching a name -/
def v13_entries (d : Option GDoc) (name : String) (attrs : Bool) : List DocParam :=
  match d with
  | some d => matching d name attrs
  | none => []

theorem v13_entries_none (name : String) (attrs : Bool) : v13_entries none name attrs = [] := rfl
theorem v13_entries_some (d : GDoc) (name : String) (attrs : Bool) :
    v13_entries (some d) name attrs = matching d name attrs := rfl

/-- the matching entries the parameter query selects from -/
def v13_paramEntries (root : GNode) (style : DocStyle) (f p c : String) : Except PyErr (List DocParam) :=
  match lookupDoc root (v13_paramDocQname f c) with
  | .error e => .error e
  | .ok d =>
    if style = .numpy ∧ v13_entries d p false = [] ∧ v13_isCtorName f = true then
      match lookupDoc root f with
      | .error e => .error e
      | .ok d2 => .ok (v13_entries d2 p false)
    else .ok (v13_entries d p false)

theorem v13_paramDocQname_eq (f c : String) :
    (if (lastD "" (splitDot f) == "__init__" && c != "") = true then replaceChar c '/' "." else f)
      = v13_paramDocQname f c := by
  unfold v13_paramDocQname v13_isCtorName
  simp only [Bool.and_eq_true, bne_iff_ne, ne_eq]

theorem v13_parameterDocSpec_aux (root : GNode) (style : DocStyle) (f p : String) (isCtor : Bool) (m : List DocParam) :
    (if (style == DocStyle.numpy && m.isEmpty && isCtor) = true then
      match lookupDoc root f with
      | Except.error e => Except.error e
      | Except.ok (some d2) => Except.ok (paramRecord (matching d2 p false))
      | Except.ok none => Except.ok (paramRecord m)
    else Except.ok (paramRecord m)) =
    Except.map paramRecord
      (if style = DocStyle.numpy ∧ m = [] ∧ isCtor = true then
        match lookupDoc root f with
        | Except.error e => Except.error e
        | Except.ok d2 => Except.ok (v13_entries d2 p false)
      else Except.ok m) := by
  by_cases hc : style = DocStyle.numpy ∧ m = [] ∧ isCtor = true
  · have hc' : (style == DocStyle.numpy && m.isEmpty && isCtor) = true := by
      simp only [Bool.and_eq_true, beq_iff_eq, List.isEmpty_iff]
      exact ⟨⟨hc.1, hc.2.1⟩, hc.2.2⟩
    rw [if_pos hc, if_pos hc']
    cases lookupDoc root f with
    | error e => rfl
    | ok d2 =>
      cases d2 with
      | none =>
        show Except.ok (paramRecord m) = Except.map paramRecord (Except.ok (v13_entries none p false))
        rw [v13_entries_none, hc.2.1]; rfl
      | some d2 => rfl
  · have hc' : ¬ (style == DocStyle.numpy && m.isEmpty && isCtor) = true := by
      simp only [Bool.and_eq_true, beq_iff_eq, List.isEmpty_iff]
      exact fun h => hc ⟨h.1.1, h.1.2, h.2⟩
    rw [if_neg hc, if_neg hc']
    rfl

theorem v13_parameterDocSpec_eq (root : GNode) (style : DocStyle) (f p c : String) :
    parameterDocSpec root style f p c = (v13_paramEntries root style f p c).map paramRecord := by
  unfold parameterDocSpec v13_paramEntries
  dsimp only
  rw [v13_paramDocQname_eq]
  unfold v13_isCtorName
  generalize (lastD "" (splitDot f) == "__init__") = isCtor
  cases lookupDoc root (v13_paramDocQname f c) with
  | error e => rfl
  | ok d =>
    cases d with
    | none => exact v13_parameterDocSpec_aux root style f p isCtor []
    | some d => exact v13_parameterDocSpec_aux root style f p isCtor (matching d p false)

/-- the matching entries the attribute query selects from -/
def v13_attrEntries (root : GNode) (style : DocStyle) (c a : String) : Except PyErr (List DocParam) :=
  match lookupDoc root (replaceChar c '/' ".") with
  | .error e => .error e
  | .ok d =>
    if style = .numpy ∧ v13_entries d a true = [] then
      match lookupDoc root (replaceChar c '/' "." ++ ".__init__") with
      | .error e => .error e
      | .ok d2 => .ok (v13_entries d2 a true)
    else .ok (v13_entries d a true)

theorem v13_attributeDocSpec_aux (root : GNode) (style : DocStyle) (q2 a : String) (m : List DocParam) :
    (if (style == DocStyle.numpy && m.isEmpty) = true then
      match lookupDoc root q2 with
      | Except.error e => Except.error e
      | Except.ok (some d2) => Except.ok (attrRecord (matching d2 a true))
      | Except.ok none => Except.ok (attrRecord m)
    else Except.ok (attrRecord m)) =
    Except.map attrRecord
      (if style = DocStyle.numpy ∧ m = [] then
        match lookupDoc root q2 with
        | Except.error e => Except.error e
        | Except.ok d2 => Except.ok (v13_entries d2 a true)
      else Except.ok m) := by
  by_cases hc : style = DocStyle.numpy ∧ m = []
  · have hc' : (style == DocStyle.numpy && m.isEmpty) = true := by
      simp only [Bool.and_eq_true, beq_iff_eq, List.isEmpty_iff]
      exact hc
    rw [if_pos hc, if_pos hc']
    cases lookupDoc root q2 with
    | error e => rfl
    | ok d2 =>
      cases d2 with
      | none =>
        show Except.ok (attrRecord m) = Except.map attrRecord (Except.ok (v13_entries none a true))
        rw [v13_entries_none, hc.2]; rfl
      | some d2 => rfl
  · have hc' : ¬ (style == DocStyle.numpy && m.isEmpty) = true := by
      simp only [Bool.and_eq_true, beq_iff_eq, List.isEmpty_iff]
      exact hc
    rw [if_neg hc, if_neg hc']
    rfl

theorem v13_attributeDocSpec_eq (root : GNode) (style : DocStyle) (c a : String) :
    attributeDocSpec root style c a = (v13_attrEntries root style c a).map attrRecord := by
  unfold attributeDocSpec v13_attrEntries
  dsimp only
  generalize replaceChar c '/' "." ++ ".__init__" = q2
  generalize replaceChar c '/' "." = q1
  cases lookupDoc root q1 with
  | error e => rfl
  | ok d =>
    cases d with
    | none => exact v13_attributeDocSpec_aux root style q2 a []
    | some d => exact v13_attributeDocSpec_aux root style q2 a (matching d a true)

/-- numpy: the record of one returns entry -/
def v13_numpyResultOf (r : DocReturn) : ResultDoc :=
  { type := r.annotation.bind annToType, description := pyStrip r.description "\n", name := r.name }

/-- google / rest: the record of the first returns entry; google with an entry without annotation
    takes the entry's NAME as the annotation -/
def v13_singleResultOf (style : DocStyle) (r : DocReturn) : ResultDoc :=
  { type := (if style = .google ∧ r.annotationIsNone = true then r.nameAsAnnotation else r.annotation).bind annToType,
    description := pyStrip r.description "\n", name := "" }

theorem v13_resultRecords_eq (style : DocStyle) (d : GDoc) :
    resultRecords style (some d) =
      if style = .numpy then (v13_returns d).map v13_numpyResultOf
      else match (v13_returns d).head? with
        | none => []
        | some r => [v13_singleResultOf style r] := by
  unfold resultRecords v13_returns
  dsimp only
  rw [v13_firstSection_eq]
  rw [v13_findSome_congr (g := v13_returnsOf) (l := d.parsed) (by intro s; cases s <;> rfl)]
  cases List.findSome? v13_returnsOf d.parsed with
  | none => dsimp only [Option.getD]; split <;> rfl
  | some rs =>
    cases rs with
    | nil => simp only [Option.getD, List.isEmpty_nil, List.map_nil, List.head?_nil, ite_self]
    | cons r rs =>
      simp only [Option.getD, List.isEmpty_cons, Bool.false_eq_true, if_false, beq_iff_eq, List.head?_cons,
        Bool.and_eq_true]
      by_cases hn : style = DocStyle.numpy
      · rw [if_pos hn, if_pos hn]
        apply List.map_congr_left
        intro r' _
        unfold v13_numpyResultOf
        cases r'.annotation <;> rfl
      · rw [if_neg hn, if_neg hn]
        unfold v13_singleResultOf
        generalize (if style = DocStyle.google ∧ r.annotationIsNone = true then r.nameAsAnnotation else r.annotation) = ann
        cases ann <;> rfl


/-! ## Part 5 — data for the kernel-checked examples of `Theorems/C13a.lean` -/

def v13_exInt : GExpr := .name "int" "int"
def v13_exStr : GExpr := .name "str" "str"
def v13_tInt : AType := .named "int" "builtins.int"
def v13_tStr : AType := .named "str" "builtins.str"
def v13_tBool : AType := .named "bool" "builtins.bool"
/-- a string annotation griffe could not parse -/
def v13_exBad : GExpr := .str "array like" "array like" none

/-- structural comparison of an optional type with an expected type -/
def v13_isType (o : Option AType) (t : AType) : Bool :=
  match o with
  | some t' => t'.beq t
  | none => false

def v13_exFn : GNode := { name := "m", docstring := some ⟨"function m", []⟩ }
def v13_exCls : GNode :=
  { name := "C", isClass := true, docstring := some ⟨"class C", []⟩,
    attributes := [{ name := "a", docstring := some ⟨"attribute a", []⟩ }] }
def v13_exMod : GNode :=
  { name := "m", docstring := some ⟨"module m", []⟩, functions := [v13_exFn], classes := [v13_exCls] }
/-- package `pkg` with module `m` that contains a function `m` and a class `C` (no `__init__`), and a
    name `x` that is both a module and a class of the package -/
def v13_exRoot : GNode :=
  { name := "pkg",
    modules := [v13_exMod, { name := "x", docstring := some ⟨"module x", []⟩ }],
    classes := [{ name := "x", isClass := true, docstring := some ⟨"class x", []⟩ }] }

/-- the docstring text of a lookup result -/
def v13_docValue (r : Except PyErr (Option GNode)) : Except PyErr (Option (Option String)) :=
  r.map fun o => o.map fun n => n.docstring.map (·.value)

def v13_exClassDoc : GDoc :=
  { value := "\nClass D.\n",
    parsed := [.text "\nClass D.\n",
      .parameters [⟨"p", some v13_exInt, "first p\n", some "1"⟩, ⟨"*args", some v13_exStr, "the args", none⟩,
                   ⟨"p", some v13_exStr, "\nsecond p", some "2"⟩],
      .attributes [⟨"a", some v13_exStr, "attribute a\n", none⟩],
      .parameters [⟨"late", none, "in a second parameters section", none⟩]] }

def v13_exCtorDoc : GDoc :=
  { value := "ctor", parsed := [.parameters [⟨"q", some v13_exBad, "ctor q", none⟩],
                                .attributes [⟨"b", some v13_exInt, "attribute b", none⟩]] }

def v13_exFunDoc : GDoc :=
  { value := "\nF.\n\nmore\n",
    parsed := [.text "\nF.\n", .examples [">>> f()\n", "\n>>> g()"],
      .returns [⟨"first", false, some v13_exInt, none, "the first\n"⟩, ⟨"second", false, some v13_exStr, none, "the second"⟩],
      .text "more\n", .examples ["... h()"],
      .returns [⟨"late", false, none, none, "in a second returns section"⟩]] }

/-- google: a returns entry without annotation; its name is read as the annotation -/
def v13_exGoogleDoc : GDoc :=
  { value := "G.", parsed := [.returns [⟨"int", true, none, some v13_exInt, "an int"⟩, ⟨"x", false, some v13_exStr, none, "dropped"⟩]] }

def v13_exDocRoot : GNode :=
  { name := "pkg",
    classes := [{ name := "D", isClass := true, docstring := some v13_exClassDoc,
                  functions := [{ name := "__init__", docstring := some v13_exCtorDoc },
                                { name := "f", docstring := some v13_exFunDoc },
                                { name := "g", docstring := some v13_exGoogleDoc },
                                { name := "h" }] }] }

def v13_exState (style : DocStyle) : ParserState := { root := v13_exDocRoot, style := style }

end StubGen
