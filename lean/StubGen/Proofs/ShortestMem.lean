/-
`_get_shortest_public_reexport` returns the dotted id of one of the modules of the re-export map (or nothing).
-/
import StubGen.Proofs.Files
import StubGen.Proofs.Lexical
import StubGen.Spec.Balance

namespace StubGen

theorem sm_firstSome_some {α β : Type} (f : α → Option β) :
    ∀ (l : List α) (b : β), firstSome f l = some b → ∃ a ∈ l, f a = some b
  | [], b, h => by simp [firstSome] at h
  | a :: as, b, h => by
    unfold firstSome at h
    split at h
    · rename_i b' hb
      cases h
      exact ⟨a, by simp, hb⟩
    · obtain ⟨x, hx, hfx⟩ := sm_firstSome_some f as b h
      exact ⟨x, by simp [hx], hfx⟩

theorem sm_reexportTuples_fst (check : String → Bool → Bool) (m : ModRef) (t : String × Option String)
    (h : t ∈ reexportTuples check m) : t.1 = m.id := by
  unfold reexportTuples at h
  rcases List.mem_append.mp h with h | h
  · split at h
    · rename_i t' ht'
      simp only [List.mem_singleton] at h
      subst h
      obtain ⟨q, _, hq⟩ := sm_firstSome_some _ _ _ ht'
      split at hq
      · cases hq; rfl
      · cases hq
    · cases h
  · split at h
    · rename_i t' ht'
      simp only [List.mem_singleton] at h
      subst h
      obtain ⟨q, _, hq⟩ := sm_firstSome_some _ _ _ ht'
      split at hq
      · cases hq; rfl
      · cases hq
    · cases h

theorem sm_dedupe_mem {α : Type} [BEq α] (l : List α) :
    ∀ (init : List α) (t : α),
      t ∈ l.foldl (fun acc t => if acc.contains t then acc else acc ++ [t]) init → t ∈ init ∨ t ∈ l := by
  induction l with
  | nil => intro init t h; exact Or.inl h
  | cons a l ih =>
    intro init t h
    rw [List.foldl_cons] at h
    rcases ih _ t h with h1 | h1
    · split at h1
      · exact Or.inl h1
      · rcases List.mem_append.mp h1 with h2 | h2
        · exact Or.inl h2
        · right; simp at h2; simp [h2]
    · right; simp [h1]

theorem sm_pickShortest_mem :
    ∀ (ts : List (String × Option String)) (acc : Option (List String × Option String)) (r : List String × Option String),
      pickShortest acc ts = some r → acc = some r ∨ ∃ t ∈ ts, r.1 = splitSlash t.1
  | [], acc, r, h => by simp only [pickShortest] at h; exact Or.inl h
  | t :: ts, acc, r, h => by
    unfold pickShortest at h
    dsimp only at h
    split at h
    · rcases sm_pickShortest_mem ts _ r h with h1 | ⟨t', ht', hr⟩
      · right; refine ⟨t, by simp, ?_⟩; cases h1; rfl
      · right; exact ⟨t', by simp [ht'], hr⟩
    · split at h
      · rcases sm_pickShortest_mem ts _ r h with h1 | ⟨t', ht', hr⟩
        · right; refine ⟨t, by simp, ?_⟩; cases h1; rfl
        · right; exact ⟨t', by simp [ht'], hr⟩
      · rcases sm_pickShortest_mem ts _ r h with h1 | ⟨t', ht', hr⟩
        · exact Or.inl h1
        · right; exact ⟨t', by simp [ht'], hr⟩

/-- THE RESULT IS A RE-EXPORTER: what `_get_shortest_public_reexport` returns is empty, or the dotted id of a module that
    stands in the re-export map -/
theorem sm_shortest_is_reexporter (rm : List (String × List ModRef)) (name qname : String) (isModule : Bool) :
    (shortestPublicReexport rm name qname isModule).1 = "" ∨
    ∃ kv ∈ rm, ∃ m ∈ kv.2, (shortestPublicReexport rm name qname isModule).1 = joinWith "." (splitSlash m.id) := by
  unfold shortestPublicReexport
  dsimp only
  split
  · left; rfl
  · rename_i parts al hp
    right
    rcases sm_pickShortest_mem _ _ _ hp with h | ⟨t, ht, hr⟩
    · cases h
    · have ht' := (mem_sortBy _ _ _).mp ht
      rcases sm_dedupe_mem _ _ _ ht' with h0 | h1
      · cases h0
      · obtain ⟨kv, hkv, hm⟩ := List.mem_flatMap.mp h1
        obtain ⟨m, hm1, hm2⟩ := List.mem_flatMap.mp hm
        refine ⟨kv, (List.mem_filter.mp hkv).1, m, hm1, ?_⟩
        have := sm_reexportTuples_fst _ _ _ hm2
        simp only at hr
        rw [hr, this]

/-- every `/`-segment of an id is a convertible name -/
def sm_idBal (id : String) : Bool := (splitSlash id).all fun s => Convertible s.toList

theorem sm_convertible_noDot {s : String} (h : Convertible s.toList = true) : '.' ∉ s.toList := by
  intro hm
  have := List.all_eq_true.mp (lx_isIdent_all (lx_convertible_isIdent h)) '.' hm
  revert this; decide

/-- the dotted spelling of an id whose segments are convertible names is a bracket-free qualified name -/
theorem sm_pathBal_dotted (id : String) (h : sm_idBal id = true) : Spec.pathBal (joinWith "." (splitSlash id)) = true := by
  unfold Spec.pathBal
  have e : ("." : String) = String.singleton '.' := by decide
  unfold sm_idBal splitSlash at h
  unfold splitSlash
  rw [e, lx_pySplit_joinWith '.' _ (lx_pySplit_ne_nil id '/')]
  · exact h
  · intro x hx
    exact sm_convertible_noDot (List.all_eq_true.mp h x hx)

/-- THE PACKAGE LINE OF A MODULE STUB is bracket-free when the segments of the module's id and of the ids of the
    re-exporting modules are convertible names: the hypothesis `hpkg` of `C02a.module_closed_partial` follows from a
    condition on the API -/
theorem sm_modulePackage_bal (env : Env) (m : Module) (hm : sm_idBal m.id = true)
    (hre : ∀ kv ∈ env.api.reexportMap, ∀ r ∈ kv.2, sm_idBal r.id = true) :
    Spec.pathBal (modulePackage env m) = true := by
  unfold modulePackage
  rcases sm_shortest_is_reexporter env.api.reexportMap m.name "" true with h | ⟨kv, hkv, r, hr, h⟩
  · rw [h]
    simp only [bne_self_eq_false, Bool.false_eq_true, if_false]
    exact sm_pathBal_dotted m.id hm
  · split
    · rw [h]; exact sm_pathBal_dotted r.id (hre kv hkv r hr)
    · exact sm_pathBal_dotted m.id hm

end StubGen
