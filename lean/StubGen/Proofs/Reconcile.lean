/-
Proof machinery for C14 (type-source preference and the warning option):
closed forms of `reconcileParameter` / `reconcileResults`, and a two-run simulation
(`l14_Sim`) showing that the analyser is oblivious to `opts.warn` and to the warning log.
-/
import StubGen.Model.Analyze

set_option linter.unusedSimpArgs false
set_option linter.unusedVariables false

namespace StubGen

/-! ### parameters -/

/-- the parameter chosen by `reconcileParameter` -/
def l14_paramOut (env : AEnv) (p : Parameter) : Parameter :=
  match p.type, p.doc.type with
  | _, none => p
  | none, some d =>
    { p with isOptional := p.doc.defaultValue != "", default := .str p.doc.defaultValue, type := some d }
  | some _, some d =>
    if env.opts.preferDocstring then
      { p with isOptional := p.doc.defaultValue != "", default := .str p.doc.defaultValue, type := some d }
    else p

/-- the records logged by `reconcileParameter` -/
def l14_paramWarn (env : AEnv) (fid : String) (p : Parameter) : List String :=
  match p.type, p.doc.type with
  | some h, some d =>
    if env.opts.warn = true ∧ h.pyEq d = false then
      ["Different type hint and docstring types for '" ++ fid ++ "'."]
    else []
  | _, _ => []

theorem l14_warnV_run (m : String) (st : VSt) :
    warnV m st = .ok ((), { st with warnings := st.warnings ++ [m] }) := rfl

theorem l14_warn_bind {β : Type} (m : String) (k : PUnit → V β) (st : VSt) :
    (warnV m >>= k) st = k PUnit.unit { st with warnings := st.warnings ++ [m] } := rfl

theorem l14_reconcileParameter_run (env : AEnv) (fid : String) (p : Parameter) (st : VSt) :
    reconcileParameter env fid p st =
      .ok (l14_paramOut env p, { st with warnings := st.warnings ++ l14_paramWarn env fid p }) := by
  obtain ⟨id, name, isOpt, dflt, asg, doc, ty⟩ := p
  obtain ⟨dty, ddef, ddesc⟩ := doc
  unfold reconcileParameter l14_paramOut l14_paramWarn optTypeNe
  have hd : (if ddef = "" then DefaultVal.str "" else DefaultVal.str ddef) = DefaultVal.str ddef := by
    split
    · next h => rw [h]
    · rfl
  cases ty <;> cases dty <;> cases hp : env.opts.preferDocstring <;> cases hw : env.opts.warn <;>
    simp [bind, StateT.bind, Except.bind, pure, StateT.pure, Except.pure, l14_warnV_run, hd]
  all_goals
    next h d =>
    cases he : h.pyEq d <;>
      simp [StateT.bind, Except.bind, StateT.pure, Except.pure, l14_warnV_run, hd] <;> rfl

/-! ### results -/

/-- the result appended for documented result number `k` (loop counter, 0-based) without a code result;
    unnamed ones are numbered from 1 like all generated result names -/
def l14_newResult (fid : String) (k : Nat) (d : ResultDoc) (dt : AType) : Result :=
  { id := fid ++ "/" ++ (if d.name != "" then d.name else "result_" ++ toString (k + 1)),
    name := (if d.name != "" then d.name else "result_" ++ toString (k + 1)), type := some dt }

/-- the record `reconcileResults` logs per differing position -/
def l14_resMsg (fid : String) : String :=
  "Different type hint and docstring types for the result of '" ++ fid ++ "'."

/-- does position (`r`, `d`) log a record? -/
def l14_resDiffers (env : AEnv) (r : Result) (d : ResultDoc) : Bool :=
  match r.type, d.type with
  | some h, some dt => env.opts.warn && !(h.pyEq dt)
  | _, _ => false

/-- the list returned by `reconcileResults`, following its recursion -/
def l14_resOut (env : AEnv) (fid : String) : Nat → List Result → List Result → List ResultDoc → List Result
  | _, all, _, [] => all
  | i, all, rs, d :: ds =>
    match d.type with
    | none => l14_resOut env fid (i + 1) all (rs.drop 1) ds
    | some dt =>
      match rs.head? with
      | none => l14_resOut env fid (i + 1) (all ++ [l14_newResult fid i d dt]) (rs.drop 1) ds
      | some _ =>
        if env.opts.preferDocstring then
          l14_resOut env fid (i + 1) (all.mapIdx (fun k x => if k == i then { x with type := some dt } else x)) (rs.drop 1) ds
        else l14_resOut env fid (i + 1) all (rs.drop 1) ds

/-- the records logged by `reconcileResults` -/
def l14_resWarn (env : AEnv) (fid : String) : List Result → List ResultDoc → List String
  | _, [] => []
  | [], _ => []
  | r :: rs, d :: ds =>
    (if l14_resDiffers env r d then [l14_resMsg fid] else []) ++ l14_resWarn env fid rs ds

theorem l14_resWarn_nil (env : AEnv) (fid : String) (ds : List ResultDoc) : l14_resWarn env fid [] ds = [] := by
  cases ds <;> rfl

theorem l14_reconcileResults_run (env : AEnv) (fid : String) :
    ∀ (docs : List ResultDoc) (i : Nat) (all rs : List Result) (st : VSt),
      reconcileResults env fid i all rs docs st =
        .ok (l14_resOut env fid i all rs docs, { st with warnings := st.warnings ++ l14_resWarn env fid rs docs })
  | [], i, all, rs, st => by
    unfold reconcileResults l14_resOut
    cases rs <;> simp [l14_resWarn, pure, StateT.pure, Except.pure]
  | d :: ds, i, all, rs, st => by
    unfold reconcileResults l14_resOut
    cases hd : d.type with
    | none =>
      dsimp only
      rw [l14_reconcileResults_run env fid ds]
      cases rs with
      | nil => simp [l14_resWarn, l14_resWarn_nil]
      | cons r rs' => simp [l14_resWarn, l14_resDiffers, hd]
    | some dt =>
      cases rs with
      | nil =>
        dsimp only [List.head?]
        rw [l14_reconcileResults_run env fid ds]
        simp [l14_resWarn, l14_resWarn_nil, l14_newResult]
      | cons r rs' =>
        dsimp only [List.head?]
        have ih := l14_reconcileResults_run env fid ds
        have hdf : l14_resDiffers env r d = (env.opts.warn && reconcileResults.resultDiffers r dt) := by
          unfold l14_resDiffers reconcileResults.resultDiffers optTypeNe
          rw [hd]
          cases r.type <;> simp
        have hw1 : l14_resWarn env fid (r :: rs') (d :: ds) =
            (if l14_resDiffers env r d then [l14_resMsg fid] else []) ++ l14_resWarn env fid rs' ds := rfl
        rw [hw1, hdf]
        cases hp : env.opts.preferDocstring <;> cases hw : env.opts.warn <;>
          cases hx : reconcileResults.resultDiffers r dt
        all_goals
          simp only [Bool.true_and, Bool.false_and, Bool.false_eq_true, if_false, if_true]
        case false.true.true | true.true.true =>
          rw [l14_warn_bind]
          refine (ih _ _ _ _).trans ?_
          unfold l14_resMsg
          simp only [List.drop_one, List.tail_cons, List.append_assoc]
        all_goals
          rw [ih]; simp only [List.drop_one, List.tail_cons, List.nil_append]

/-! #### closed form of the result list -/

/-- code result `r` against its documented result `d` -/
def l14_updOne (env : AEnv) (r : Result) (d : ResultDoc) : Result :=
  match d.type with
  | some dt => if env.opts.preferDocstring then { r with type := some dt } else r
  | none => r

/-- position by position: code results against documented results -/
def l14_zipUpd (env : AEnv) : List Result → List ResultDoc → List Result
  | [], _ => []
  | r :: rs, [] => r :: rs
  | r :: rs, d :: ds => l14_updOne env r d :: l14_zipUpd env rs ds

/-- results appended for the documented results beyond the code results; `k` is the loop counter -/
def l14_appended (fid : String) : Nat → List ResultDoc → List Result
  | _, [] => []
  | k, d :: ds =>
    (match d.type with
     | some dt => [l14_newResult fid k d dt]
     | none => []) ++ l14_appended fid (k + 1) ds

theorem l14_resOut_nil (env : AEnv) (fid : String) :
    ∀ (docs : List ResultDoc) (i : Nat) (all : List Result),
      l14_resOut env fid i all [] docs = all ++ l14_appended fid i docs
  | [], i, all => by simp [l14_resOut, l14_appended]
  | d :: ds, i, all => by
    unfold l14_resOut l14_appended
    cases hd : d.type with
    | none => simp [l14_resOut_nil env fid ds]
    | some dt => simp [l14_resOut_nil env fid ds]

theorem l14_mapIdx_at {α : Type} (f : α → α) (pre : List α) (r : α) (rs : List α) :
    (pre ++ r :: rs).mapIdx (fun k x => if k == pre.length then f x else x) = pre ++ f r :: rs := by
  rw [List.mapIdx_eq_iff]
  intro i
  rcases Nat.lt_trichotomy i pre.length with h | h | h
  · rw [List.getElem?_append_left h, List.getElem?_append_left h]
    have : (i == pre.length) = false := by simp; omega
    cases hx : pre[i]? <;> simp [this]
  · subst h
    simp
  · have h1 : pre.length ≤ i := by omega
    rw [List.getElem?_append_right h1, List.getElem?_append_right h1]
    obtain ⟨j, hj⟩ : ∃ j, i - pre.length = j + 1 := ⟨i - pre.length - 1, by omega⟩
    rw [hj]
    have : (i == pre.length) = false := by simp; omega
    cases hx : rs[j]? <;> simp [this, hx]

theorem l14_resOut_closed (env : AEnv) (fid : String) :
    ∀ (docs : List ResultDoc) (i : Nat) (pre rs : List Result), pre.length = i →
      l14_resOut env fid i (pre ++ rs) rs docs =
        pre ++ l14_zipUpd env rs docs ++ l14_appended fid (i + rs.length) (docs.drop rs.length)
  | [], i, pre, rs, _ => by
    cases rs <;> simp [l14_resOut, l14_zipUpd, l14_appended]
  | d :: ds, i, pre, [], _ => by
    rw [l14_resOut_nil]
    simp [l14_zipUpd]
  | d :: ds, i, pre, r :: rs, hi => by
    have ih := l14_resOut_closed env fid ds (i + 1) (pre ++ [l14_updOne env r d]) rs (by simp [hi])
    have ih' := l14_resOut_closed env fid ds (i + 1) (pre ++ [r]) rs (by simp [hi])
    have e1 : i + 1 + rs.length = i + (rs.length + 1) := by omega
    simp only [List.append_assoc, List.singleton_append, e1] at ih ih'
    unfold l14_resOut
    simp only [List.head?, List.drop_one, List.tail_cons, l14_zipUpd, List.length_cons, List.drop_succ_cons,
      List.drop_zero]
    cases hd : d.type with
    | none =>
      simp only [l14_updOne, hd] at ih ⊢
      rw [ih]
      simp
    | some dt =>
      cases hp : env.opts.preferDocstring with
      | false =>
        simp only [l14_updOne, hd, hp] at ih ⊢
        simp only [Bool.false_eq_true, if_false] at ih ⊢
        rw [ih]
        simp
      | true =>
        simp only [l14_updOne, hd, hp, if_true] at ih ⊢
        subst hi
        rw [l14_mapIdx_at (fun x => { x with type := some dt }) pre r rs, ih]
        simp

theorem l14_zipUpd_length (env : AEnv) :
    ∀ (rs : List Result) (docs : List ResultDoc), (l14_zipUpd env rs docs).length = rs.length
  | [], _ => by simp [l14_zipUpd]
  | r :: rs, [] => by simp [l14_zipUpd]
  | r :: rs, d :: ds => by simp [l14_zipUpd, l14_zipUpd_length env rs ds]

theorem l14_zipUpd_getElem? (env : AEnv) :
    ∀ (rs : List Result) (docs : List ResultDoc) (i : Nat),
      (l14_zipUpd env rs docs)[i]? =
        rs[i]?.map (fun r => match docs[i]? with | some d => l14_updOne env r d | none => r)
  | [], _, i => by simp [l14_zipUpd]
  | r :: rs, [], i => by
    simp only [l14_zipUpd, List.getElem?_nil]
    cases (r :: rs)[i]? <;> rfl
  | r :: rs, d :: ds, 0 => by simp [l14_zipUpd]
  | r :: rs, d :: ds, i + 1 => by
    simp only [l14_zipUpd, List.getElem?_cons_succ]
    exact l14_zipUpd_getElem? env rs ds i

theorem l14_appended_eq (fid : String) :
    ∀ (docs : List ResultDoc) (k : Nat),
      l14_appended fid k docs =
        (docs.zipIdx k).filterMap (fun p => p.1.type.map (l14_newResult fid p.2 p.1))
  | [], k => by simp [l14_appended]
  | d :: ds, k => by
    simp only [l14_appended, List.zipIdx_cons, List.filterMap_cons, l14_appended_eq fid ds (k + 1)]
    cases d.type <;> simp

theorem l14_appended_length (fid : String) :
    ∀ (docs : List ResultDoc) (k : Nat),
      (l14_appended fid k docs).length = (docs.filter (fun d => d.type.isSome)).length
  | [], k => by simp [l14_appended]
  | d :: ds, k => by
    simp only [l14_appended, List.length_append, l14_appended_length fid ds (k + 1), List.filter_cons]
    cases d.type <;> simp <;> omega

theorem l14_resWarn_eq (env : AEnv) (fid : String) :
    ∀ (rs : List Result) (docs : List ResultDoc),
      l14_resWarn env fid rs docs =
        ((rs.zip docs).filter (fun p => l14_resDiffers env p.1 p.2)).map (fun _ => l14_resMsg fid)
  | [], docs => by simp [l14_resWarn_nil]
  | r :: rs, [] => by simp [l14_resWarn]
  | r :: rs, d :: ds => by
    simp only [l14_resWarn, List.zip_cons_cons, List.filter_cons, l14_resWarn_eq env fid rs ds]
    cases l14_resDiffers env r d <;> simp

/-! #### names of the returned results: the generator convention `result_<position + 1>` is preserved -/

theorem l14_toString_inj {m n : Nat} (h : toString m = toString n) : m = n := by
  have h1 := congrArg String.toList h
  simp only [Nat.toString_eq_repr, Nat.toList_repr] at h1
  have h2 := congrArg (fun l => Nat.ofDigitChars 10 l 0) h1
  simpa using h2

/-- the generator's result name for the 0-based position `k` -/
def l14_genName (k : Nat) : String := "result_" ++ toString (k + 1)

theorem l14_genName_inj {m n : Nat} (h : l14_genName m = l14_genName n) : m = n := by
  unfold l14_genName at h
  have h1 := congrArg String.toList h
  simp only [String.toList_append, List.append_cancel_left_eq] at h1
  have := l14_toString_inj (String.toList_inj.1 h1)
  omega

theorem l14_genName_nodup (s n : Nat) : ((List.range' s n).map l14_genName).Nodup := by
  have h : (List.range' s n).Nodup := List.nodup_range'
  exact List.Pairwise.map _ (fun a b hab e => hab (l14_genName_inj e)) h

theorem l14_zipUpd_names (env : AEnv) :
    ∀ (rs : List Result) (docs : List ResultDoc), (l14_zipUpd env rs docs).map (·.name) = rs.map (·.name)
  | [], _ => by simp [l14_zipUpd]
  | r :: rs, [] => by simp [l14_zipUpd]
  | r :: rs, d :: ds => by
    have h1 : (l14_updOne env r d).name = r.name := by
      unfold l14_updOne
      split
      · split <;> rfl
      · rfl
    simp only [l14_zipUpd, List.map_cons, h1, l14_zipUpd_names env rs ds]

theorem l14_appended_names (fid : String) :
    ∀ (docs : List ResultDoc) (k : Nat), (∀ d ∈ docs, d.type.isSome → d.name = "") →
      ((l14_appended fid k docs).map (·.name)).Sublist ((List.range' k docs.length).map l14_genName)
  | [], k, _ => by simp [l14_appended]
  | d :: ds, k, h => by
    have ih := l14_appended_names fid ds (k + 1) (fun d hd => h d (List.mem_cons_of_mem _ hd))
    simp only [l14_appended, List.map_append, List.length_cons, List.range'_succ, List.map_cons]
    cases hd : d.type with
    | none => exact List.Sublist.cons _ (by simpa using ih)
    | some dt =>
      have hn : d.name = "" := h d (List.mem_cons_self) (by simp [hd])
      have : (l14_newResult fid k d dt).name = l14_genName k := by
        simp [l14_newResult, hn, l14_genName]
      simp only [List.map_cons, List.map_nil, List.singleton_append, this]
      exact List.Sublist.cons_cons _ ih

theorem l14_names_of_conv :
    ∀ (rs : List Result) (s : Nat), (∀ j r, rs[j]? = some r → r.name = l14_genName (s + j)) →
      rs.map (·.name) = (List.range' s rs.length).map l14_genName
  | [], s, _ => by simp
  | r :: rs, s, h => by
    have h0 := h 0 r rfl
    have ih := l14_names_of_conv rs (s + 1) (fun j r' hj => by
      have := h (j + 1) r' (by simpa using hj)
      rw [this]; congr 1; omega)
    simp only [List.map_cons, List.length_cons, List.range'_succ, ih]
    rw [h0]; rfl

theorem l14_resOut_names_nodup (env : AEnv) (fid : String) (rs : List Result) (docs : List ResultDoc)
    (hrs : ∀ j r, rs[j]? = some r → r.name = "result_" ++ toString (j + 1))
    (hdocs : ∀ d ∈ docs.drop rs.length, d.type.isSome → d.name = "") :
    ((l14_resOut env fid 0 rs rs docs).map (·.name)).Nodup := by
  have hc := l14_resOut_closed env fid docs 0 [] rs rfl
  simp only [List.nil_append, Nat.zero_add] at hc
  rw [hc, List.map_append, l14_zipUpd_names,
    l14_names_of_conv rs 0 (fun j r hj => by rw [hrs j r hj, Nat.zero_add]; rfl)]
  have hs := l14_appended_names fid (docs.drop rs.length) rs.length hdocs
  have hsub := List.Sublist.append (List.Sublist.refl ((List.range' 0 rs.length).map l14_genName)) hs
  rw [← List.map_append] at hsub
  have := List.range'_append_1 (s := 0) (m := rs.length) (n := (docs.drop rs.length).length)
  rw [Nat.zero_add] at this
  rw [this] at hsub
  exact List.Nodup.sublist hsub (l14_genName_nodup _ _)

/-! ### the analyser is oblivious to `opts.warn` and to the warning log: a two-run simulation -/

/-- `env` with the warning option set to `w` -/
@[reducible] def l14_envW (env : AEnv) (w : Bool) : AEnv := { env with opts := { env.opts with warn := w } }

/-- `s` with the warning log replaced -/
@[reducible] def l14_setW (s : VSt) (w : List String) : VSt := { s with warnings := w }

@[simp] theorem l14_envW_aliases (env : AEnv) (w : Bool) : (l14_envW env w).aliases = env.aliases := rfl
@[simp] theorem l14_envW_infoBases (env : AEnv) (w : Bool) : (l14_envW env w).infoBases = env.infoBases := rfl
@[simp] theorem l14_envW_plaintext (env : AEnv) (w : Bool) : (l14_envW env w).opts.plaintext = env.opts.plaintext := rfl
@[simp] theorem l14_envW_style (env : AEnv) (w : Bool) : (l14_envW env w).opts.style = env.opts.style := rfl
@[simp] theorem l14_envW_prefer (env : AEnv) (w : Bool) :
    (l14_envW env w).opts.preferDocstring = env.opts.preferDocstring := rfl
@[simp] theorem l14_envW_warn (env : AEnv) (w : Bool) : (l14_envW env w).opts.warn = w := rfl

@[simp] theorem l14_setW_api (s : VSt) (w : List String) : (l14_setW s w).api = s.api := rfl
@[simp] theorem l14_setW_stack (s : VSt) (w : List String) : (l14_setW s w).stack = s.stack := rfl
@[simp] theorem l14_setW_typeVars (s : VSt) (w : List String) : (l14_setW s w).typeVars = s.typeVars := rfl
@[simp] theorem l14_setW_doc (s : VSt) (w : List String) : (l14_setW s w).doc = s.doc := rfl
@[simp] theorem l14_setW_fileFullname (s : VSt) (w : List String) : (l14_setW s w).fileFullname = s.fileFullname := rfl
@[simp] theorem l14_setW_fileName (s : VSt) (w : List String) : (l14_setW s w).fileName = s.fileName := rfl
@[simp] theorem l14_setW_seenNone (s : VSt) (w : List String) : (l14_setW s w).seenNone = s.seenNone := rfl
@[simp] theorem l14_setW_setW (s : VSt) (w w' : List String) : l14_setW (l14_setW s w) w' = l14_setW s w' := rfl
theorem l14_setW_self (s : VSt) : l14_setW s s.warnings = s := rfl

/-- two outcomes agree up to the warning log -/
def l14_Rel {α : Type} : Except PyErr (α × VSt) → Except PyErr (α × VSt) → Prop
  | .ok (a, t), .ok (a', t') => a = a' ∧ ∃ w, t' = l14_setW t w
  | .error e, .error e' => e = e'
  | _, _ => False

/-- `x` and `x'`, run from states that differ in the warning log only, agree up to the warning log:
    the same value and final states differing in the log only, or the same error -/
structure l14_Sim {α : Type} (x x' : V α) : Prop where
  run : ∀ (s : VSt) (w : List String), l14_Rel (x s) (x' (l14_setW s w))

namespace l14_Sim
variable {α β : Type}

theorem pure (a : α) : l14_Sim (Pure.pure a : V α) (Pure.pure a) :=
  ⟨fun s w => ⟨rfl, w, rfl⟩⟩

theorem throw (e : PyErr) : l14_Sim (throwV e : V α) (throwV e) :=
  ⟨fun _ _ => rfl⟩

theorem bind {x x' : V α} {f f' : α → V β} (hx : l14_Sim x x') (hf : ∀ a, l14_Sim (f a) (f' a)) :
    l14_Sim (x >>= f) (x' >>= f') := by
  refine ⟨fun s w => ?_⟩
  have h := hx.run s w
  simp only [Bind.bind, StateT.bind, Except.bind]
  revert h
  cases x s with
  | error e =>
    cases x' (l14_setW s w) with
    | error e' => exact fun h => h
    | ok r' => exact fun h => h.elim
  | ok r =>
    obtain ⟨a, t⟩ := r
    cases x' (l14_setW s w) with
    | error e' => exact fun h => h.elim
    | ok r' =>
      obtain ⟨a', t'⟩ := r'
      rintro ⟨rfl, w', rfl⟩
      exact (hf a).run t w'

theorem get_bind {f f' : VSt → V β} (hf : ∀ s w, l14_Sim (f s) (f' (l14_setW s w))) :
    l14_Sim (get >>= f) (get >>= f') :=
  ⟨fun s w => (hf s w).run s w⟩

theorem modify {g g' : VSt → VSt} (hg : ∀ s w, ∃ w', g' (l14_setW s w) = l14_setW (g s) w') :
    l14_Sim (modify g : V PUnit) (modify g') := by
  refine ⟨fun s w => ?_⟩
  obtain ⟨w', hw⟩ := hg s w
  exact ⟨rfl, w', hw⟩

theorem set {t t' : VSt} (ht : ∃ w', t' = l14_setW t w') : l14_Sim (set t : V PUnit) (set t') :=
  ⟨fun _ _ => ⟨rfl, ht⟩⟩

theorem warn (m m' : String) : l14_Sim (warnV m) (warnV m') :=
  ⟨fun _ _ => ⟨rfl, _, rfl⟩⟩

theorem warn_left (m : String) : l14_Sim (warnV m) (Pure.pure PUnit.unit) :=
  ⟨fun _ _ => ⟨rfl, _, rfl⟩⟩

theorem warn_right (m : String) : l14_Sim (Pure.pure PUnit.unit) (warnV m) :=
  ⟨fun _ _ => ⟨rfl, _, rfl⟩⟩

theorem ite {c : Prop} {d1 d2 : Decidable c} {x y x' y' : V α} (h1 : c → l14_Sim x x') (h2 : ¬c → l14_Sim y y') :
    l14_Sim (@_root_.ite _ c d1 x y) (@_root_.ite _ c d2 x' y') := by
  by_cases h : c
  · rw [if_pos h, if_pos h]; exact h1 h
  · rw [if_neg h, if_neg h]; exact h2 h

theorem withDoc (f : ParserState → Except PyErr (α × ParserState)) : l14_Sim (withDoc f) (withDoc f) := by
  refine ⟨fun s w => ?_⟩
  show l14_Rel (match f s.doc with | .error e => .error e | .ok (a, d) => .ok (a, { s with doc := d }))
    (match f s.doc with | .error e => .error e | .ok (a, d) => .ok (a, { l14_setW s w with doc := d }))
  cases f s.doc with
  | error e => exact rfl
  | ok r => exact ⟨rfl, w, rfl⟩

end l14_Sim

/-! #### functions that read the state or the environment, but neither the log nor `opts.warn` -/

@[simp] theorem l14_createId_w (s : VSt) (w : List String) (n : String) : createId (l14_setW s w) n = createId s n := rfl
@[simp] theorem l14_bottomModule_w (s : VSt) (w : List String) : bottomModule (l14_setW s w) = bottomModule s := rfl
@[simp] theorem l14_findAlias_w (env : AEnv) (s : VSt) (w : List String) (n k : String) :
    findAlias env (l14_setW s w) n k = findAlias env s n k := rfl
@[simp] theorem l14_findAlias_w' (env : AEnv) (b : Bool) (s : VSt) (n k : String) :
    findAlias (l14_envW env b) s n k = findAlias env s n k := rfl
@[simp] theorem l14_isPublicV_w (s : VSt) (w : List String) (n q : String) :
    isPublicV (l14_setW s w) n q = isPublicV s n q := rfl
@[simp] theorem l14_getReexportedBy_w (s : VSt) (w : List String) (q : String) :
    getReexportedBy (l14_setW s w) q = getReexportedBy s q := rfl
@[simp] theorem l14_attributeAlreadyDefined_w (s : VSt) (w : List String) (n : String) :
    attributeAlreadyDefined (l14_setW s w) n = attributeAlreadyDefined s n := rfl

@[simp] theorem l14_inheritsFromException_w (env : AEnv) (b : Bool) :
    ∀ (fuel : Nat) (n : String), inheritsFromException (l14_envW env b) fuel n = inheritsFromException env fuel n
  | 0, _ => rfl
  | fuel + 1, n => by
    unfold inheritsFromException
    have : inheritsFromException (l14_envW env b) fuel = inheritsFromException env fuel :=
      funext (l14_inheritsFromException_w env b fuel)
    rw [this]

open Lean in
macro "l14_sim" "[" ls:term,* "]" : tactic => do
  let alts ← ls.getElems.mapM fun l => `(tacticSeq| apply $l)
  `(tactic| repeat' (first
      | with_reducible exact l14_Sim.pure _
      | with_reducible exact l14_Sim.throw _
      | with_reducible exact l14_Sim.warn _ _
      | with_reducible exact l14_Sim.withDoc _
      | with_reducible assumption
      | ((with_reducible apply l14_Sim.modify); intro _ _; exact ⟨_, rfl⟩)
      | ((with_reducible apply l14_Sim.set); exact ⟨_, rfl⟩)
      | ((with_reducible apply l14_Sim.get_bind); intro _ _)
      $[| with_reducible $alts:tacticSeq]*
      | with_reducible apply l14_Sim.bind
      | with_reducible apply l14_Sim.ite
      | intro _
      | (dsimp only [l14_envW_aliases, l14_envW_infoBases, l14_envW_plaintext, l14_envW_style, l14_envW_prefer,
          l14_envW_warn, l14_setW_api, l14_setW_stack, l14_setW_typeVars, l14_setW_doc, l14_setW_fileFullname,
          l14_setW_fileName, l14_setW_seenNone, l14_createId_w, l14_bottomModule_w, l14_findAlias_w,
          l14_findAlias_w', l14_isPublicV_w, l14_getReexportedBy_w, l14_attributeAlreadyDefined_w,
          l14_inheritsFromException_w])
      | simp only [l14_inheritsFromException_w]
      | split))

section
variable (env : AEnv) (b : Bool)

theorem l14_classDocumentation_sim (fullname : String) (defs : List Def) :
    l14_Sim (classDocumentation env fullname defs) (classDocumentation (l14_envW env b) fullname defs) := by
  unfold classDocumentation
  l14_sim []

theorem l14_functionDocumentation_sim (f : FuncDef) :
    l14_Sim (functionDocumentation env f) (functionDocumentation (l14_envW env b) f) := by
  unfold functionDocumentation
  l14_sim []

theorem l14_parameterDocumentation_sim (fq pname parent : String) :
    l14_Sim (parameterDocumentation env fq pname parent) (parameterDocumentation (l14_envW env b) fq pname parent) := by
  unfold parameterDocumentation
  l14_sim []

theorem l14_attributeDocumentation_sim (parent name : String) :
    l14_Sim (attributeDocumentation env parent name) (attributeDocumentation (l14_envW env b) parent name) := by
  unfold attributeDocumentation
  l14_sim []

theorem l14_resultDocumentation_sim (fq : String) :
    l14_Sim (resultDocumentation env fq) (resultDocumentation (l14_envW env b) fq) := by
  unfold resultDocumentation
  l14_sim []

end

mutual
theorem l14_toAbstractNoUn_sim (env : AEnv) (b : Bool) :
    (t : MType) → l14_Sim (toAbstractNoUn env t) (toAbstractNoUn (l14_envW env b) t)
  | .tuple items => by
    have := l14_toAbstracts_sim env b items
    unfold toAbstractNoUn
    l14_sim []
  | .union items => by
    have := l14_toAbstracts_sim env b items
    unfold toAbstractNoUn
    l14_sim []
  | .typeVar name ub ubStr => by
    have := l14_toAbstractNoUn_sim env b ub
    unfold toAbstractNoUn
    l14_sim []
  | .callable args ret => by
    have := l14_toAbstracts_sim env b args
    have := l14_toAbstractNoUn_sim env b ret
    unfold toAbstractNoUn
    l14_sim []
  | .any t missing => by
    unfold toAbstractNoUn
    l14_sim []
  | .none => by
    unfold toAbstractNoUn
    l14_sim []
  | .literal v => by
    unfold toAbstractNoUn
    l14_sim []
  | .unbound name args => by
    have := l14_toAbstracts_sim env b args
    unfold toAbstractNoUn
    l14_sim []
  | .inst name fullname [] => by
    have := l14_toAbstracts_sim env b []
    unfold toAbstractNoUn
    l14_sim []
  | .inst name fullname [k] => by
    have := l14_toAbstracts_sim env b [k]
    unfold toAbstractNoUn
    l14_sim []
  | .inst name fullname (k :: v :: rest) => by
    have := l14_toAbstracts_sim env b (k :: v :: rest)
    have := l14_toAbstractNoUn_sim env b k
    have := l14_toAbstractNoUn_sim env b v
    unfold toAbstractNoUn
    l14_sim []
  | .other _ _ => by
    unfold toAbstractNoUn
    l14_sim []
theorem l14_toAbstracts_sim (env : AEnv) (b : Bool) :
    (ts : List MType) → l14_Sim (toAbstracts env ts) (toAbstracts (l14_envW env b) ts)
  | [] => by
    unfold toAbstracts
    l14_sim []
  | t :: ts => by
    have := l14_toAbstractNoUn_sim env b t
    have := l14_toAbstracts_sim env b ts
    unfold toAbstracts
    l14_sim []
end

theorem l14_Sim.forIn {α β : Type} {f f' : α → β → V (ForInStep β)} (hf : ∀ a b, l14_Sim (f a b) (f' a b)) :
    ∀ (l : List α) (b : β), l14_Sim (forIn l b f) (forIn l b f')
  | [], b => by
    rw [List.forIn_nil, List.forIn_nil]
    exact l14_Sim.pure _
  | a :: l, b => by
    rw [List.forIn_cons, List.forIn_cons]
    refine l14_Sim.bind (hf a b) (fun r => ?_)
    cases r with
    | done b' => exact l14_Sim.pure _
    | yield b' => exact l14_Sim.forIn hf l b'

theorem l14_Sim.mapM {α β : Type} {f f' : α → V β} (hf : ∀ a, l14_Sim (f a) (f' a)) :
    ∀ (l : List α), l14_Sim (l.mapM f) (l.mapM f')
  | [] => by
    rw [List.mapM_nil, List.mapM_nil]
    exact l14_Sim.pure _
  | a :: l => by
    rw [List.mapM_cons, List.mapM_cons]
    exact l14_Sim.bind (hf a) (fun b => l14_Sim.bind (l14_Sim.mapM hf l) (fun bs => l14_Sim.pure _))

/-- two optional computations: both absent, or both present and in simulation -/
structure l14_OptSim {α : Type} (o o' : Option (V α)) : Prop where
  run : match o, o' with
    | some v, some v' => l14_Sim v v'
    | none, none => True
    | _, _ => False

theorem l14_OptSim.none {α : Type} : l14_OptSim (none : Option (V α)) none := ⟨trivial⟩
theorem l14_OptSim.some {α : Type} {v v' : V α} (h : l14_Sim v v') : l14_OptSim (some v) (some v') := ⟨h⟩

theorem l14_Sim.optMatch {o o' : Option (V AType)} {d d' : V AType} (h : l14_OptSim o o') (hd : l14_Sim d d') :
    l14_Sim (match (generalizing := false) o with | some v => v | none => d)
      (match (generalizing := false) o' with | some v => v | none => d') := by
  obtain ⟨h⟩ := h
  cases o <;> cases o' <;> first | exact hd | exact h | exact h.elim

section
variable (env : AEnv) (b : Bool)

theorem l14_toAbstract_sim (t : MType) (un : Option MType) :
    l14_Sim (toAbstract env t un) (toAbstract (l14_envW env b) t un) := by
  unfold toAbstract
  dsimp only
  apply l14_Sim.optMatch
  · repeat' (first
      | exact l14_OptSim.none
      | apply l14_OptSim.some
      | split)
    all_goals l14_sim [l14_toAbstractNoUn_sim, l14_toAbstracts_sim]
  · exact l14_toAbstractNoUn_sim env b t

theorem l14_parseParameter_sim (f : FuncDef) (fid : String) (a : Arg) :
    l14_Sim (parseParameter env f fid a) (parseParameter (l14_envW env b) f fid a) := by
  unfold parseParameter
  l14_sim [l14_toAbstract_sim, l14_parameterDocumentation_sim, l14_Sim.forIn]

theorem l14_parseParameters_sim (f : FuncDef) (fid : String) :
    ∀ (as : List Arg), l14_Sim (parseParameters env f fid as) (parseParameters (l14_envW env b) f fid as)
  | [] => by
    unfold parseParameters
    l14_sim []
  | a :: as => by
    have := l14_parseParameters_sim f fid as
    unfold parseParameters
    l14_sim [l14_parseParameter_sim]

theorem l14_parseResults_sim (f : FuncDef) (fid : String) (docs : List ResultDoc) :
    l14_Sim (parseResults env f fid docs) (parseResults (l14_envW env b) f fid docs) := by
  unfold parseResults
  l14_sim [l14_toAbstract_sim]

end

/-! #### the two functions that read `opts.warn` -/

theorem l14_paramOut_envW (env : AEnv) (b : Bool) (p : Parameter) : l14_paramOut (l14_envW env b) p = l14_paramOut env p := rfl

theorem l14_resOut_envW (env : AEnv) (b : Bool) (fid : String) :
    ∀ (docs : List ResultDoc) (i : Nat) (all rs : List Result),
      l14_resOut (l14_envW env b) fid i all rs docs = l14_resOut env fid i all rs docs
  | [], i, all, rs => by unfold l14_resOut; rfl
  | d :: ds, i, all, rs => by
    unfold l14_resOut
    simp only [l14_resOut_envW env b fid ds, l14_envW_prefer]

section
variable (env : AEnv) (b : Bool)

theorem l14_reconcileParameter_sim (fid : String) (p : Parameter) :
    l14_Sim (reconcileParameter env fid p) (reconcileParameter (l14_envW env b) fid p) := by
  refine ⟨fun s w => ?_⟩
  rw [l14_reconcileParameter_run, l14_reconcileParameter_run, l14_paramOut_envW env b]
  exact ⟨rfl, _, rfl⟩

theorem l14_reconcileParameters_sim (fid : String) :
    ∀ (ps : List Parameter), l14_Sim (reconcileParameters env fid ps) (reconcileParameters (l14_envW env b) fid ps)
  | [] => by
    unfold reconcileParameters
    l14_sim []
  | p :: ps => by
    have := l14_reconcileParameters_sim fid ps
    unfold reconcileParameters
    l14_sim [l14_reconcileParameter_sim]

theorem l14_reconcileResults_sim (fid : String) (i : Nat) (all rs : List Result) (docs : List ResultDoc) :
    l14_Sim (reconcileResults env fid i all rs docs) (reconcileResults (l14_envW env b) fid i all rs docs) := by
  refine ⟨fun s w => ?_⟩
  rw [l14_reconcileResults_run, l14_reconcileResults_run, l14_resOut_envW env b]
  exact ⟨rfl, _, rfl⟩

theorem l14_enterFuncdef_sim (f : FuncDef) : l14_Sim (enterFuncdef env f) (enterFuncdef (l14_envW env b) f) := by
  unfold enterFuncdef
  l14_sim [l14_functionDocumentation_sim, l14_parseParameters_sim, l14_reconcileParameters_sim,
    l14_resultDocumentation_sim, l14_parseResults_sim, l14_reconcileResults_sim]

theorem l14_leaveFuncdef_sim : l14_Sim leaveFuncdef leaveFuncdef := by
  unfold leaveFuncdef
  l14_sim []

end

section
variable (env : AEnv) (b : Bool)

theorem l14_createAttributeV_sim (isMember : Bool) (name fullname : String) (isVar : Bool) (var : Option VarInfo)
    (un : Option MType) (isStatic : Bool) :
    l14_Sim (createAttributeV env isMember name fullname isVar var un isStatic)
      (createAttributeV (l14_envW env b) isMember name fullname isVar var un isStatic) := by
  unfold createAttributeV
  l14_sim [l14_toAbstract_sim, l14_attributeDocumentation_sim]

end

theorem l14_parseAttributes_go_sim {one one' : Bool → String → String → Bool → Option VarInfo → V (List Attribute)}
    (h : ∀ m n fq iv var, l14_Sim (one m n fq iv var) (one' m n fq iv var)) :
    ∀ (items : List LValue), l14_Sim (parseAttributes.go one items) (parseAttributes.go one' items)
  | [] => by
    unfold parseAttributes.go
    l14_sim []
  | .name n fq isVar var :: rest => by
    have := l14_parseAttributes_go_sim h rest
    unfold parseAttributes.go
    l14_sim [h]
  | .member n fq isVar var :: rest => by
    have := l14_parseAttributes_go_sim h rest
    unfold parseAttributes.go
    l14_sim [h]
  | .tuple _ :: rest => by
    have := l14_parseAttributes_go_sim h rest
    unfold parseAttributes.go
    l14_sim [h]
  | .other :: rest => by
    have := l14_parseAttributes_go_sim h rest
    unfold parseAttributes.go
    l14_sim [h]

section
variable (env : AEnv) (b : Bool)

theorem l14_parseAttributes_sim (lv : LValue) (un : Option MType) (isStatic : Bool) :
    l14_Sim (parseAttributes env lv un isStatic) (parseAttributes (l14_envW env b) lv un isStatic) := by
  unfold parseAttributes
  dsimp only
  have h : ∀ (m : Bool) (n fq : String) (iv : Bool) (var : Option VarInfo),
      l14_Sim (do
          let s ← get
          match attributeAlreadyDefined s n with
            | Except.error e => throwV e
            | Except.ok true => pure []
            | Except.ok false =>
              if (m && !iv) = true then pure []
              else do
                let a ← createAttributeV env m n fq iv var un isStatic
                pure [a] : V (List Attribute))
        (do
          let s ← get
          match attributeAlreadyDefined s n with
            | Except.error e => throwV e
            | Except.ok true => pure []
            | Except.ok false =>
              if (m && !iv) = true then pure []
              else do
                let a ← createAttributeV (l14_envW env b) m n fq iv var un isStatic
                pure [a]) := by
    intro m n fq iv var
    l14_sim [l14_createAttributeV_sim]
  cases lv with
  | name n fq isVar var => exact h _ _ _ _ _
  | member n fq isVar var => exact h _ _ _ _ _
  | tuple items => exact l14_parseAttributes_go_sim h items
  | other => exact l14_Sim.pure _

theorem l14_enterAssignment_go_sim (a : Assignment) :
    ∀ (lvs : List LValue), l14_Sim (enterAssignment.go env a lvs) (enterAssignment.go (l14_envW env b) a lvs)
  | [] => by
    unfold enterAssignment.go
    l14_sim []
  | lv :: rest => by
    have := l14_enterAssignment_go_sim a rest
    unfold enterAssignment.go
    l14_sim [l14_parseAttributes_sim]

theorem l14_enterAssignment_sim (a : Assignment) :
    l14_Sim (enterAssignment env a) (enterAssignment (l14_envW env b) a) := by
  unfold enterAssignment
  l14_sim [l14_enterAssignment_go_sim]

theorem l14_leaveAssignment_sim : l14_Sim leaveAssignment leaveAssignment := by
  unfold leaveAssignment
  l14_sim []

theorem l14_walkAssignment_sim (a : Assignment) :
    l14_Sim (walkAssignment env a) (walkAssignment (l14_envW env b) a) := by
  unfold walkAssignment
  l14_sim [l14_enterAssignment_sim, l14_leaveAssignment_sim]

end

section
variable (env : AEnv) (b : Bool)

theorem l14_typeParameter_sim (tv : TypeVarInfo) :
    l14_Sim (typeParameter env tv) (typeParameter (l14_envW env b) tv) := by
  unfold typeParameter
  l14_sim [l14_toAbstract_sim, l14_toAbstracts_sim]

theorem l14_typeParameters_sim :
    ∀ (l : List (Option TypeVarInfo)), l14_Sim (typeParameters env l) (typeParameters (l14_envW env b) l)
  | [] => by
    unfold typeParameters
    l14_sim []
  | none :: _ => by
    unfold typeParameters
    l14_sim []
  | some tv :: rest => by
    have := l14_typeParameters_sim rest
    unfold typeParameters
    l14_sim [l14_typeParameter_sim]

theorem l14_ctorFullDoc_sim : ∀ (defs : List Def), l14_Sim (ctorFullDoc env defs) (ctorFullDoc (l14_envW env b) defs)
  | [] => by
    unfold ctorFullDoc
    l14_sim []
  | .func f :: rest => by
    have := l14_ctorFullDoc_sim rest
    unfold ctorFullDoc
    l14_sim [l14_functionDocumentation_sim]
  | .decorator _ :: rest => by
    have := l14_ctorFullDoc_sim rest
    unfold ctorFullDoc
    l14_sim []
  | .overloaded _ :: rest => by
    have := l14_ctorFullDoc_sim rest
    unfold ctorFullDoc
    l14_sim []
  | .cls .. :: rest => by
    have := l14_ctorFullDoc_sim rest
    unfold ctorFullDoc
    l14_sim []
  | .assign _ :: rest => by
    have := l14_ctorFullDoc_sim rest
    unfold ctorFullDoc
    l14_sim []
  | .docExpr .. :: rest => by
    have := l14_ctorFullDoc_sim rest
    unfold ctorFullDoc
    l14_sim []
  | .other _ :: rest => by
    have := l14_ctorFullDoc_sim rest
    unfold ctorFullDoc
    l14_sim []

theorem l14_enterClassdef_sim (name fullname : String) (bases removed : List BaseExpr) (defs : List Def) :
    l14_Sim (enterClassdef env name fullname bases removed defs)
      (enterClassdef (l14_envW env b) name fullname bases removed defs) := by
  unfold enterClassdef
  l14_sim [l14_classDocumentation_sim, l14_typeParameters_sim, l14_ctorFullDoc_sim, l14_Sim.mapM]

theorem l14_leaveClassdef_sim : l14_Sim leaveClassdef leaveClassdef := by
  unfold leaveClassdef
  l14_sim []

theorem l14_enterEnumdef_sim (name fullname : String) (defs : List Def) :
    l14_Sim (enterEnumdef env name fullname defs) (enterEnumdef (l14_envW env b) name fullname defs) := by
  unfold enterEnumdef
  l14_sim [l14_classDocumentation_sim]

theorem l14_leaveEnumdef_sim : l14_Sim leaveEnumdef leaveEnumdef := by
  unfold leaveEnumdef
  l14_sim []

theorem l14_enterModuledef_sim (m : SrcModule) : l14_Sim (enterModuledef m) (enterModuledef m) := by
  unfold enterModuledef
  l14_sim []

theorem l14_leaveModuledef_sim : l14_Sim leaveModuledef leaveModuledef := by
  unfold leaveModuledef
  l14_sim []

theorem l14_walkNone_sim : l14_Sim walkNone walkNone := by
  unfold walkNone
  l14_sim []

theorem l14_walkFunc_sim (f : FuncDef) : l14_Sim (walkFunc env f) (walkFunc (l14_envW env b) f) := by
  unfold walkFunc
  l14_sim [l14_enterFuncdef_sim, l14_leaveFuncdef_sim, l14_walkAssignment_sim, l14_Sim.forIn]

end

mutual
theorem l14_walkDef_sim (env : AEnv) (b : Bool) (mode : WalkMode) :
    (d : Def) → l14_Sim (walkDef env mode d) (walkDef (l14_envW env b) mode d)
  | .func f => by
    unfold walkDef
    l14_sim [l14_walkFunc_sim]
  | .decorator f => by
    unfold walkDef
    l14_sim [l14_walkFunc_sim]
  | .overloaded impl => by
    unfold walkDef
    l14_sim [l14_walkFunc_sim, l14_walkNone_sim]
  | .cls name fullname bases removed defs => by
    have h1 := l14_walkDefs_sim env b .enum defs
    have h2 := l14_walkDefs_sim env b .cls defs
    unfold walkDef
    l14_sim [l14_enterEnumdef_sim, l14_leaveEnumdef_sim, l14_enterClassdef_sim, l14_leaveClassdef_sim]
  | .assign a => by
    unfold walkDef
    l14_sim [l14_walkAssignment_sim]
  | .docExpr _ _ => by
    unfold walkDef
    l14_sim []
  | .other _ => by
    unfold walkDef
    l14_sim []
theorem l14_walkDefs_sim (env : AEnv) (b : Bool) (mode : WalkMode) :
    (ds : List Def) → l14_Sim (walkDefs env mode ds) (walkDefs (l14_envW env b) mode ds)
  | [] => by
    unfold walkDefs
    l14_sim []
  | d :: ds => by
    have h1 := l14_walkDef_sim env b mode d
    have h2 := l14_walkDefs_sim env b mode ds
    unfold walkDefs
    l14_sim []
end

section
variable (env : AEnv) (b : Bool)

theorem l14_walkModule_sim (m : SrcModule) : l14_Sim (walkModule env m) (walkModule (l14_envW env b) m) := by
  unfold walkModule
  l14_sim [l14_enterModuledef_sim, l14_walkDefs_sim, l14_leaveModuledef_sim]

theorem l14_walkModules_sim :
    ∀ (ms : List SrcModule), l14_Sim (walkModules env ms) (walkModules (l14_envW env b) ms)
  | [] => by
    unfold walkModules
    l14_sim []
  | m :: ms => by
    have := l14_walkModules_sim ms
    unfold walkModules
    l14_sim [l14_walkModule_sim]

/-- the analysis result and the error behaviour do not depend on `opts.warn` -/
theorem l14_analyze_envW (docRoot : GNode) (mods : List SrcModule) :
    (analyze env docRoot mods).map Prod.fst = (analyze (l14_envW env b) docRoot mods).map Prod.fst := by
  unfold analyze
  dsimp only [l14_envW_style]
  have h := (l14_walkModules_sim env b mods).run { doc := { root := docRoot, style := env.opts.style } } []
  revert h
  simp only [StateT.run]
  generalize walkModules env mods { doc := { root := docRoot, style := env.opts.style } } = r
  generalize walkModules (l14_envW env b) mods (l14_setW { doc := { root := docRoot, style := env.opts.style } } []) = r'
  intro h
  cases r with
  | error e =>
    cases r' with
    | error e' => cases (show e = e' from h); rfl
    | ok p' => exact h.elim
  | ok p =>
    obtain ⟨a, t⟩ := p
    cases r' with
    | error e' => exact h.elim
    | ok p' =>
      obtain ⟨a', t'⟩ := p'
      obtain ⟨-, w', rfl⟩ := h
      rfl

end

end StubGen

