/-
Python-semantics helpers shared by the model: JSON-like values, string
algorithms over `List Char` (so that everything reduces under `decide`),
stable insertion sort.  No imports beyond core.
-/
namespace StubGen

/-- JSON-like Python value (what `to_dict` produces / `from_dict` consumes). -/
inductive PyVal where
  | str (s : String)
  | int (i : Int)
  | bool (b : Bool)
  | none
  | list (xs : List PyVal)
  | dict (items : List (String × PyVal))

/-- Python exception classes the model distinguishes. -/
inductive PyErr where
  | keyError | valueError | typeError | indexError | attributeError | lookupError | assertionError
  | unsupported            -- the model does not cover this input (never a verdict)
  deriving DecidableEq, Repr

def PyErr.name : PyErr → String
  | .keyError => "KeyError" | .valueError => "ValueError" | .typeError => "TypeError"
  | .indexError => "IndexError" | .attributeError => "AttributeError"
  | .lookupError => "LookupError" | .assertionError => "AssertionError"
  | .unsupported => "unsupported"

def assocGet? {α : Type} : List (String × α) → String → Option α
  | [], _ => none
  | (k, v) :: xs, key => if k == key then some v else assocGet? xs key

/-! ### Sorting (stable insertion sort; reduces under `decide`) -/

def insertBy {α : Type} (le : α → α → Bool) (a : α) : List α → List α
  | [] => [a]
  | b :: bs => if le a b then a :: b :: bs else b :: insertBy le a bs

/-- Stable: equal elements keep their relative order (we insert from the right). -/
def sortBy {α : Type} (le : α → α → Bool) : List α → List α
  | [] => []
  | a :: as => insertBy le a (sortBy le as)

def strLe (a b : String) : Bool := !(decide (b < a))

def sortStrings (l : List String) : List String := sortBy strLe l

/-- insert into a strictly sorted list, dropping duplicates -/
def insertDedup (a : String) : List String → List String
  | [] => [a]
  | b :: bs => if a < b then a :: b :: bs else if a = b then b :: bs else b :: insertDedup a bs

/-- `sorted(set(l))` for strings. -/
def sortDedup : List String → List String
  | [] => []
  | a :: as => insertDedup a (sortDedup as)

/-! ### Strings as `List Char` -/

def joinWith (sep : String) : List String → String
  | [] => ""
  | [a] => a
  | a :: as => a ++ sep ++ joinWith sep as

/-- `s.split(sep)` for a single separator character (never returns `[]`). -/
def splitOnChar (sep : Char) : List Char → List (List Char)
  | [] => [[]]
  | c :: cs =>
    match splitOnChar sep cs with
    | [] => [[]]   -- unreachable
    | p :: ps => if c = sep then [] :: p :: ps else (c :: p) :: ps

def pySplit (s : String) (sep : Char) : List String :=
  (splitOnChar sep s.toList).map String.ofList

def lstripChar (ch : Char) : List Char → List Char
  | [] => []
  | c :: cs => if c = ch then lstripChar ch cs else c :: cs

def rstripChar (ch : Char) (l : List Char) : List Char := (lstripChar ch l.reverse).reverse

def isPrefixOfL : List Char → List Char → Bool
  | [], _ => true
  | _ :: _, [] => false
  | a :: as, b :: bs => a == b && isPrefixOfL as bs

def pyStartsWith (s p : String) : Bool := isPrefixOfL p.toList s.toList
def pyEndsWith (s p : String) : Bool := isPrefixOfL p.toList.reverse s.toList.reverse

def isInfixOfL (p : List Char) : List Char → Bool
  | [] => p.isEmpty
  | c :: cs => isPrefixOfL p (c :: cs) || isInfixOfL p cs

/-- Python `p in s` for strings. -/
def pyIn (p s : String) : Bool := isInfixOfL p.toList s.toList

/-- `s.replace(a, b)` for single characters. -/
def replaceChar (s : String) (a : Char) (b : String) : String :=
  String.ofList (s.toList.flatMap (fun c => if c = a then b.toList else [c]))

def lastD {α : Type} (d : α) : List α → α
  | [] => d
  | [a] => a
  | _ :: as => lastD d as

def dropLast' {α : Type} : List α → List α
  | [] => []
  | [_] => []
  | a :: as => a :: dropLast' as

/-! ### Safe-DS string literals (`safeds_stubgen/_helpers.py::escape_string_literal`, repair d913d69) -/

/-- one character of a Python string inside a Safe-DS string literal -/
def escapeStringChar (c : Char) : List Char :=
  if c = '\\' then ['\\', '\\'] else if c = '"' then ['\\', '"'] else if c = '\n' then ['\\', 'n']
  else if c = '\r' then ['\\', 'r'] else [c]

/-- `escape_string_literal(value)`: the four `str.replace` calls act on single characters and never on each other's
    output, so the result is the character-wise escape between two quotes -/
def escapeStringLiteral (s : String) : String :=
  String.ofList ('"' :: (s.toList.flatMap escapeStringChar ++ ['"']))

end StubGen
