/- More Python `str` methods, over `List Char` with `String` wrappers. -/
import StubGen.Py.Basic

namespace StubGen

/-- `s.split(sep)` for a non-empty separator string; `skip` counts separator characters still to drop. -/
def splitOnStrAux (sep : List Char) : Nat → List Char → List (List Char)
  | _, [] => [[]]
  | skip + 1, _ :: cs => splitOnStrAux sep skip cs
  | 0, c :: cs =>
    if isPrefixOfL sep (c :: cs) then
      [] :: splitOnStrAux sep (sep.length - 1) cs
    else
      match splitOnStrAux sep 0 cs with
      | [] => [[c]]
      | p :: ps => (c :: p) :: ps

/-- Python `s.split(sep)` (`sep` non-empty). -/
def pySplitStr (s sep : String) : List String :=
  if sep.isEmpty then [s] else (splitOnStrAux sep.toList 0 s.toList).map String.ofList

/-- Python `s.replace(a, b)` (`a` non-empty): non-overlapping, left to right. -/
def pyReplace (s a b : String) : String := joinWith b (pySplitStr s a)

def lstripSet (set : List Char) : List Char → List Char
  | [] => []
  | c :: cs => if set.contains c then lstripSet set cs else c :: cs

/-- `s.lstrip(chars)` — strips a character *set*. -/
def pyLstrip (s chars : String) : String := String.ofList (lstripSet chars.toList s.toList)
/-- `s.rstrip(chars)` -/
def pyRstrip (s chars : String) : String := String.ofList (lstripSet chars.toList s.toList.reverse).reverse
def pyStrip (s chars : String) : String := pyRstrip (pyLstrip s chars) chars

def splitDot (s : String) : List String := pySplit s '.'
def splitSlash (s : String) : List String := pySplit s '/'
def splitLines (s : String) : List String := pySplit s '\n'

/-- `xs[-2]` when it exists -/
def secondLast? {α : Type} : List α → Option α
  | [] => none
  | [_] => none
  | [a, _] => some a
  | _ :: as => secondLast? as

def insertSet (a : String) (l : List String) : List String := if l.contains a then l else l ++ [a]
def unionSet (l m : List String) : List String := m.foldl (fun acc a => insertSet a acc) l

end StubGen
