import StubGen.Py.Basic
import StubGen.Py.Str
import StubGen.Generated.Tables
import StubGen.Model.Types
import StubGen.Model.Naming
import StubGen.Model.Api
import StubGen.Model.Gen
import StubGen.Model.Files
import StubGen.Model.Discovery
import StubGen.Model.Doc
import StubGen.Spec.Lex
import StubGen.Spec.Keywords
import StubGen.Spec.Markers
import StubGen.Spec.TypeSpec
import StubGen.Spec.Params
import StubGen.Proofs.Types
import StubGen.Proofs.Naming
import StubGen.Proofs.Params
-- (being re-proved after the model followed the fix: commits) import StubGen.Proofs.TypeText
import StubGen.Proofs.Files
-- (being re-proved after the model followed the fix: commits) import StubGen.Proofs.Markers
import StubGen.Proofs.Doc
import StubGen.Theorems.Tables
-- (being re-proved after the model followed the fix: commits) import StubGen.Theorems.C05
import StubGen.Theorems.C06
import StubGen.Theorems.C07
import StubGen.Theorems.C09
import StubGen.Theorems.C10
import StubGen.Theorems.C13
import StubGen.Theorems.C15
import StubGen.Theorems.C16
import StubGen.Theorems.C19
-- (being re-proved after the model followed the fix: commits) import StubGen.Theorems.C20
