/- Line-protocol driver: one JSON request per input line, one JSON reply per output line. -/
import StubGen.Driver.Json
import StubGen.Driver.ApiJson
import StubGen.Driver.DocJson
import StubGen.Driver.SrcJson
import StubGen.Driver.ToolJson
import StubGen.Model.Naming
import StubGen.Model.Types
import StubGen.Model.Discovery
import StubGen.Spec.Lex

open Lean StubGen StubGen.Driver

def handle (j : Json) : Json :=
  match getStr j "op" with
  | "convert" =>
    Json.mkObj [("out", .str (convertAny (getStr j "name") (getBool j "safe") (getBool j "cls")))]
  | "convert_batch" =>
    let safe := getBool j "safe"
    Json.mkObj [("out", .arr ((getStrs j "names").map fun n =>
      Json.arr #[.str (convertAny n safe false), .str (convertAny n safe true), .str (escapeKeyword n),
                 .bool (isInternal n), .bool (Convertible n.toList), .bool (isIdent n.toList)]).toArray)]
  | "escape" => Json.mkObj [("out", .str (escapeKeyword (getStr j "name")))]
  | "internal" => Json.mkObj [("out", .bool (isInternal (getStr j "name")))]
  | "type" =>
    match AType.fromDict (jsonToPy (getJson j "d")) with
    | .error e => Json.mkObj [("ok", .bool false), ("err", .str e.name)]
    | .ok t => Json.mkObj [("ok", .bool true), ("todict", pyToJson t.toDict), ("hash", .str t.hashKey),
                           ("refl", .bool (t.pyEq t))]
  | "gen" => runGen j
  | "doc" => runDoc j
  | "analyze" => runAnalyze j
  | "tool" => runToolOp j
  | "discover" =>
    let parts := fun (x : Json) => match x with
      | .arr a => a.toList.filterMap fun y => match y with | .str s => some s | _ => none
      | _ => []
    let files := (getArr j "files").map parts
    match discoverSorted (parts (getJson j "root")) files (getBool j "test_run") with
    | .error e => Json.mkObj [("ok", .bool false), ("err", .str e.name)]
    | .ok (root, d) =>
      Json.mkObj [("ok", .bool true), ("root", .str (pathStr root)),
        ("walkable", .arr ((d.walkable.map pathStr).map Json.str).toArray),
        ("packages", .arr ((d.packages.map pathStr).map Json.str).toArray),
        ("selected", .arr ((selectAsts (getStrs j "graph") d).map Json.str).toArray)]
  | "eq" =>
    match AType.fromDict (jsonToPy (getJson j "a")), AType.fromDict (jsonToPy (getJson j "b")) with
    | .ok a, .ok b => Json.mkObj [("ok", .bool true), ("eq", .bool (a.pyEq b)), ("eqr", .bool (b.pyEq a)),
                                  ("hashEq", .bool (a.hashKey == b.hashKey))]
    | _, _ => Json.mkObj [("ok", .bool false)]
  | op => Json.mkObj [("error", .str s!"unknown op {op}")]

partial def loop (hin hout : IO.FS.Stream) : IO Unit := do
  let line ← hin.getLine
  if line.isEmpty then return ()
  let reply := match Json.parse line with
    | .ok j => handle j
    | .error e => Json.mkObj [("error", .str e)]
  hout.putStrLn reply.compress
  loop hin hout

def main : IO Unit := do
  let hin ← IO.getStdin
  let hout ← IO.getStdout
  loop hin hout
  hout.flush
